#!/usr/bin/env python3
"""Regenerates MANIFEST.json from props.json (single source of per-property metadata)."""
import json, os, subprocess
V = os.path.dirname(os.path.abspath(__file__))
props = json.load(open(os.path.join(V, "props.json")))
all_ids = [json.loads(l)["id"] for l in open(os.path.join(V, "properties.jsonl"))]
hook_commits = subprocess.run(["git", "-C", "/repo", "log", "--format=%H", "--grep=verif_hooks"], capture_output=True, text=True).stdout.split()
checks, na = [], []
for pid in all_ids:
    m = props.get(pid)
    if not m or not m.get("implemented", True):
        na.append({"property_id": pid, "reason": (m or {}).get("na_reason", "monitor not built yet (work in progress; see DESIGN.md §5 for the planned oracle)")})
        continue
    level = m.get("level", "exploration")
    checks.append({
        "property_id": pid,
        "quick_cmd": f"./check {pid} quick",
        "thorough_cmd": f"./check {pid} thorough",
        "evidence_file": f"/verif/evidence/{pid}.json",
        "replay_cmd_template": f"./check {pid} --replay {{path}}",
        "engine": m.get("engine", "vmon"),
        "level_claimed": {"category": level, "text": m["level_text"], "design_ref": f"DESIGN.md §5 {pid}"},
        "level_note": m["level_note"],
        "technique": m["technique"],
    })
manifest = {
    "version": 1,
    "setup_cmd": "./check build",
    "hooks": {
        "guard": "cargo feature verif_hooks (off by default)",
        "enable": "the harness crate /verif/harness path-depends on /repo with feature verif_hooks (cargo build --features hooks); every ./check command rebuilds it from /repo's working tree",
        "baseline_off_cmd": "cd /repo && CARGO_NET_OFFLINE=true cargo nextest run --workspace --no-fail-fast --test-threads 8 --offline || CARGO_NET_OFFLINE=true cargo test --workspace --no-fail-fast --offline",
        "source_commits": hook_commits,
        "add_only": True,
    },
    "engines": [
        {"name": "vmon", "path": "/verif/harness", "serves_properties": [c["property_id"] for c in checks if c["engine"] == "vmon"],
         "kind_free_text": "Rust harness: seeded workload generators drive the real library; reference-model / specification-recogniser / position-map / panic-trap monitors judge every execution at the public API boundary; after the default build every check repeats a quarter of its cases against two more builds of the library (multithreaded feature; release profile)"},
        {"name": "c20", "path": "/verif/c20.py", "serves_properties": ["C20"],
         "kind_free_text": "first-use race trials (one process each) with failpoint hooks + offline history checker; same trial binary under ThreadSanitizer (-Zbuild-std) and Miri many-seeds"},
    ],
    "checks": checks,
    "not_applicable": na,
    "notes": "Technique family: runtime monitoring and sanitizers. Verdicts are three-valued (exit 0 held-on-observed / 1 VIOLATION / 2 inconclusive). Known findings: /verif/known_findings.json. VERIF_SEED seeds every run; VERIF_SCALE scales workloads; VERIF_VARIANTS= (empty) switches the extra build variants off.",
}
json.dump(manifest, open(os.path.join(V, "MANIFEST.json"), "w"), indent=1)
print("claimed", [c["property_id"] for c in checks], "na", [n["property_id"] for n in na])
