#!/bin/bash
# usage: coverage.sh [PROP ...]   -- which lines / functions of /repo/src do the monitors execute?
# Builds the worker with -Cinstrument-coverage (nightly, separate target dir /verif/target-cov), runs the quick
# workload of each property at a reduced scale in 4 shards, merges the profiles and prints per-file line coverage
# and the list of functions of /repo/src that no monitor reached. Diagnostic only: not part of any verdict.
set -u
V=$(dirname "$(readlink -f "$0")")
export CARGO_NET_OFFLINE=true CARGO_TARGET_DIR=$V/target-cov RUSTFLAGS="-Cinstrument-coverage"
BIN=$(dirname $(find ~/.rustup/toolchains/nightly-x86_64-unknown-linux-gnu -name llvm-cov | head -1))
PROPS=${@:-C01 C02 C03 C04 C05 C06 C07 C08 C09 C10 C11 C12 C13 C14 C15 C16 C17 C18 C19}
cargo +nightly build --offline --manifest-path $V/harness/Cargo.toml --features hooks --bin vmon 2>&1 | tail -1
OUT=$V/work/cov; rm -rf $OUT; mkdir -p $OUT
for p in $PROPS; do
  for i in 0 1 2 3; do
    LLVM_PROFILE_FILE=$OUT/$p-$i.profraw VERIF_SCALE=${VERIF_SCALE:-0.1} $CARGO_TARGET_DIR/debug/vmon $p --tier quick --seed 5 --shard $i --nshards 4 --out $OUT/w-$p --replays $OUT/replays >/dev/null 2>&1 &
  done
  wait
done
$BIN/llvm-profdata merge -sparse $OUT/*.profraw -o $OUT/all.profdata
$BIN/llvm-cov report $CARGO_TARGET_DIR/debug/vmon -instr-profile=$OUT/all.profdata --ignore-filename-regex='(registry|rustc|harness)' 2>/dev/null | tee $OUT/report.txt | tail -70
$BIN/llvm-cov export $CARGO_TARGET_DIR/debug/vmon -instr-profile=$OUT/all.profdata --ignore-filename-regex='(registry|rustc|harness)' -format=lcov 2>/dev/null > $OUT/all.lcov
python3 - $OUT/all.lcov <<'PY'
import sys,re,subprocess
cur=None; zero=[]
for l in open(sys.argv[1]):
    l=l.strip()
    if l.startswith("SF:"): cur=l[3:]
    elif l.startswith("FNDA:"):
        n,name=l[5:].split(",",1)
        if n=="0" and cur and "/repo/src" in cur: zero.append((cur,name))
names=sorted(set(zero))
try:
    dem=subprocess.run(["rustfilt"],input="\n".join(n for _,n in names),capture_output=True,text=True).stdout.splitlines()
except Exception:
    dem=[n for _,n in names]
print("functions of /repo/src never executed:",len(names))
for (f,_),d in zip(names,dem): print(" ",f.replace("/repo/",""),d[:140])
PY
