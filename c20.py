"""C20 — global registries and formatting under concurrency.

Three instruments over one workload (the `c20_trial` binary, one process per trial so that
first-use initialisation is raced every time):
  (1) native trials with failpoint hooks + offline history checker (k-model),
  (2) the same trial under ThreadSanitizer (-Zbuild-std),
  (3) the same trial under Miri with many seeds (data races, UB, deadlocks).
Plus the shared-envelope clause: the trial built with bc-envelope's `multithreaded` feature.
"""
import glob
import hashlib
import json
import os
import shutil
import subprocess
import time

KMAX = 3  # reference tables for k = 0..KMAX; text is constant for k >= 2 (checked at run time)


def run(tier, seed, meta, chk):
    t0 = time.time()
    known = chk.load_known()
    work = os.path.join(chk.WORK, f"C20-{tier}-{seed}")
    shutil.rmtree(work, ignore_errors=True)
    os.makedirs(work)
    viols = {}
    notes = []
    inconclusive = None
    cov = {"evaluations": 0, "distinct_nontrivial": 0, "rule": meta["rule"], "samples": [], "counters": {}}
    C = cov["counters"]

    def add_violation(sig, detail, replay_obj):
        os.makedirs(os.path.join(chk.REPLAYS, "C20"), exist_ok=True)
        name = hashlib.sha1(sig.encode()).hexdigest()[:16] + f"-s{seed}.json"
        path = os.path.join(chk.REPLAYS, "C20", name)
        if sig not in viols:
            with open(path, "w") as f:
                json.dump({"property": "C20", "signature": sig, "detail": detail, "seed": seed, "tier": tier, "inputs": replay_obj}, f, indent=1)
            viols[sig] = {"count": 0, "detail": detail, "replay": path}
        viols[sig]["count"] += 1

    # ---------------- build (native, hooks on; and hooks+mt)
    bindir = chk.build(features=("hooks",))
    if bindir is None:
        return chk.finish("C20", tier, seed, "exploration", cov, {}, known, t0, inconclusive="harness build failed")
    trial = os.path.join(bindir, "c20_trial")
    mt_target = os.path.join(chk.VERIF, "target-mt")
    env_mt = dict(chk.ENV)
    env_mt["CARGO_TARGET_DIR"] = mt_target
    p = subprocess.run(["cargo", "build", "--offline", "--manifest-path", os.path.join(chk.HARNESS, "Cargo.toml"), "--features", "hooks,mt", "--bin", "c20_trial"],
                       env=env_mt, stdout=subprocess.PIPE, stderr=subprocess.STDOUT, text=True)
    trial_mt = os.path.join(mt_target, "debug", "c20_trial") if p.returncode == 0 else None
    if trial_mt is None:
        chk.log(p.stdout[-3000:])
        inconclusive = "multithreaded-feature build failed"

    # ---------------- reference tables: each op alone in a fresh single-threaded process, k = 0..KMAX
    def reference(binary, tag):
        ref = {}
        texts = {}
        for k in range(KMAX + 1):
            out = os.path.join(work, f"ref-{tag}-{k}.txt")
            r = subprocess.run([binary, "--reference", str(k), "--out", out], env=chk.ENV, timeout=120)
            if r.returncode != 0:
                return None, None
            for line in open(out, encoding="utf-8"):
                parts = line.rstrip("\n").split(" ", 4)
                if parts[0] == "R":
                    ref[(k, parts[1], int(parts[2]))] = parts[3]
                    texts[(k, parts[1], int(parts[2]))] = parts[4] if len(parts) > 4 else ""
        return ref, texts

    ref, texts = reference(trial, "st")
    if ref is None:
        return chk.finish("C20", tier, seed, "exploration", cov, {}, known, t0, inconclusive="reference run failed")
    # the k-model itself is observed, not assumed: k=2 and k=3 must agree, k=0/1/2 may differ
    sat = all(ref[(2, op, e)] == ref[(3, op, e)] for (k, op, e) in ref if k == 2)
    C["reference_entries"] = len(ref)
    C["reference_k_dependent_entries"] = sum(1 for (k, op, e) in ref if k == 0 and (ref[(0, op, e)] != ref[(1, op, e)] or ref[(1, op, e)] != ref[(2, op, e)]))
    if not sat:
        add_violation("reference/not-saturated-at-k2", "sequential text still changes between 2 and 3 register_tags() calls; the k-model of the checker no longer describes the code", {})
    ref_mt = None
    if trial_mt:
        ref_mt, _ = reference(trial_mt, "mt")
        if ref_mt is not None and ref_mt != ref:
            add_violation("shared-envelope/sequential-text-differs", "the multithreaded build formats differently from the default build when run alone", {})

    def allowed(k, op, e, table):
        # "format while holding a registry guard" must give the plain format text
        if op.endswith("_guard_format"):
            op = "format"
        return table.get((min(k, KMAX), op, e))

    # ---------------- history checker
    def check_history(path, table, label, tseed, threads):
        events, hooks, done = [], [], None
        for line in open(path, encoding="utf-8"):
            p = line.split()
            if not p:
                continue
            if p[0] == "E":
                events.append({"t": int(p[1]), "op": p[2], "e": int(p[3]), "call": int(p[4]), "ret": int(p[5]), "h": p[6], "ok": p[7] == "ok"})
            elif p[0] == "H":
                hooks.append((int(p[3]), int(p[1]), p[2]))
            elif p[0] == "X":
                add_violation(f"{label}/thread-died", f"a worker thread died (seed {tseed})", {"trial_seed": tseed, "threads": threads, "log": path})
            elif p[0] == "DONE":
                done = line.strip()
        if done is None:
            return None
        regs = [ev for ev in events if ev["op"] == "register_tags"]
        C["events"] = C.get("events", 0) + len(events)
        C["hook_events"] = C.get("hook_events", 0) + len(hooks)
        C["register_tags_calls"] = C.get("register_tags_calls", 0) + len(regs)
        inits = {}
        for _, _, pt in hooks:
            if pt.endswith(".init.begin"):
                inits[pt] = inits.get(pt, 0) + 1
        for pt, n in inits.items():
            C["init_" + pt] = C.get("init_" + pt, 0) + n  # recorded, not judged
        # every call completed, no panic (a poisoned lock shows as a panic on every later call)
        hostile = max(e for (k, op, e) in table) - 1 if table else -1  # the envelope with the dcbor date panic (D14)
        for ev in events:
            if not ev["ok"] and ev["e"] == hostile and ev["op"] != "register_tags":
                C["expected_dependency_panics"] = C.get("expected_dependency_panics", 0) + 1
                continue
            if not ev["ok"]:
                add_violation(f"{label}/panic-in-op/{ev['op']}", f"operation {ev['op']} on envelope #{ev['e']} panicked in thread {ev['t']} (seed {tseed}, {threads} threads)", {"trial_seed": tseed, "threads": threads, "log": path})
        # k assignment: text == ref[k], (#reg returned before call) <= k <= (#reg called before return),
        # k non-decreasing along real-time order (greedy smallest feasible k)
        evs = sorted([ev for ev in events if ev["op"] != "register_tags" and ev["ok"]], key=lambda x: x["call"])
        by_ret = sorted(evs, key=lambda x: x["ret"])
        assigned = {}
        pmax, j = 0, 0
        ks_seen = set()
        for ev in evs:
            while j < len(by_ret) and by_ret[j]["ret"] < ev["call"]:
                pmax = max(pmax, assigned.get(id(by_ret[j]), 0))
                j += 1
            lo = sum(1 for r in regs if r["ret"] < ev["call"])
            hi = sum(1 for r in regs if r["call"] < ev["ret"])
            lo = max(lo, pmax)
            found = None
            for k in range(lo, max(hi, lo) + 1):
                if allowed(k, ev["op"], ev["e"], table) == ev["h"]:
                    found = k
                    break
            C["format_events_judged"] = C.get("format_events_judged", 0) + 1
            if found is None:
                exp = {k: allowed(k, ev["op"], ev["e"], table) for k in range(lo, max(hi, lo) + 1)}
                anyk = [k for k in range(KMAX + 1) if allowed(k, ev["op"], ev["e"], table) == ev["h"]]
                kind = "stale-or-future-registry-state" if anyk else "text-matches-no-sequential-run"
                add_violation(f"{label}/history/{kind}/{ev['op']}",
                              f"{ev['op']} on envelope #{ev['e']} in thread {ev['t']} returned text hash {ev['h']}; allowed k in [{lo},{hi}] gives {exp}; matches sequential k={anyk} (seed {tseed}, {threads} threads)",
                              {"trial_seed": tseed, "threads": threads, "log": path, "sequential_text_k0": texts.get((0, ev['op'], ev['e']))})
                assigned[id(ev)] = lo
            else:
                assigned[id(ev)] = found
                ks_seen.add(min(found, KMAX))
        # interleaving fingerprint: merged sequence of (thread, op call/return) and (thread, hook point)
        seq = []
        for ev in events:
            seq.append((ev["call"], f"c{ev['t']}{ev['op']}"))
            seq.append((ev["ret"], f"r{ev['t']}{ev['op']}"))
        for ts, t, pt in hooks:
            seq.append((ts, f"h{t}{pt}"))
        seq.sort()
        fp = hashlib.sha1("|".join(s for _, s in seq).encode()).hexdigest()
        return fp, tuple(sorted(ks_seen)), len(events)

    # ---------------- (1) native trials
    n_native = int({"quick": 400, "thorough": 10000}[tier] * float(os.environ.get("VERIF_SCALE", "1")))
    thread_choices = [2, 3, 4, 8, 16]
    fingerprints, kassign = set(), set()
    hangs = []

    def run_trials(binary, table, label, n, outdir):
        nonlocal inconclusive
        os.makedirs(outdir, exist_ok=True)
        pending = []
        idx = 0
        done_n = 0

        def launch(i):
            tseed = (seed * 1000003 + i * 7919 + (0 if label == "native" else 555)) & 0xffffffff
            threads = thread_choices[i % len(thread_choices)]
            ln = [12, 24, 40][i % 3]
            out = os.path.join(outdir, f"t{i}.log")
            cmd = [binary, "--seed", str(tseed), "--threads", str(threads), "--len", str(ln), "--delays", str(1 if i % 4 else 0), "--out", out]
            return (i, tseed, threads, out, cmd, subprocess.Popen(cmd, env=chk.ENV, stdout=subprocess.DEVNULL, stderr=subprocess.DEVNULL), time.time())

        while idx < n or pending:
            while idx < n and len(pending) < chk.NPROC:
                pending.append(launch(idx))
                idx += 1
            still = []
            for item in pending:
                i, tseed, threads, out, cmd, proc, started = item
                rc = proc.poll()
                if rc is None:
                    if time.time() - started > 30:
                        # a ~50 ms trial still running after 30 s: take thread backtraces of THIS process
                        bt = ""
                        try:
                            bt = subprocess.run(["gdb", "-batch", "-p", str(proc.pid), "-ex", "thread apply all bt 14"], stdout=subprocess.PIPE, stderr=subprocess.STDOUT, text=True, timeout=120).stdout
                        except Exception as ex:  # noqa
                            bt = f"gdb failed: {ex}"
                        proc.kill()
                        proc.wait()
                        hangs.append((label, cmd, tseed, threads, bt))
                    else:
                        still.append(item)
                    continue
                done_n += 1
                if rc != 0:
                    add_violation(f"{label}/trial-crashed/exit{rc}", f"trial process exited with {rc} (seed {tseed}, {threads} threads)", {"cmd": cmd})
                    continue
                r = check_history(out, table, label, tseed, threads)
                if r is None:
                    add_violation(f"{label}/trial-incomplete", f"trial wrote no DONE line (seed {tseed})", {"cmd": cmd})
                    continue
                fingerprints.add((label, r[0]))
                kassign.add(r[1])
                cov["evaluations"] += r[2]
                C[f"trials_{label}"] = C.get(f"trials_{label}", 0) + 1
                C[f"trials_{label}_threads_{threads}"] = C.get(f"trials_{label}_threads_{threads}", 0) + 1
                if len(cov["samples"]) < 3:
                    with open(out, encoding="utf-8") as f:
                        lines = f.read().splitlines()
                    cov["samples"].append({"engine": label, "trial_seed": tseed, "threads": threads, "events_head": lines[:12], "k_assignment": list(r[1])})
            pending = still
            if pending:
                time.sleep(0.005)

    run_trials(trial, ref, "native", n_native, os.path.join(work, "native"))
    if trial_mt and ref_mt:
        run_trials(trial_mt, ref_mt, "shared-envelope", max(40, n_native // 4), os.path.join(work, "mt"))
    # hung trials: classify from the thread backtraces taken while the process was hanging
    for label, cmd, tseed, threads, bt in hangs[:5]:
        blocks = [b for b in bt.split("\nThread ")[1:]]
        waiting = [b for b in blocks if any(w in b for w in ("futex", "lock_contended", "__lll_lock", "pthread_join", "Condvar", "Barrier"))]
        in_lock = [b for b in blocks if ("lock_contended" in b or "Mutex" in b or "Once" in b)]
        C["hung_trials"] = C.get("hung_trials", 0) + 1
        if blocks and len(waiting) == len(blocks) and in_lock:
            frames = sorted({ln.split(" in ")[-1].split(" (")[0] for b in in_lock for ln in b.splitlines() if "bc_envelope" in ln})[:6]
            add_violation(f"{label}/deadlock", f"trial hung (> 30 s) with every thread parked in a lock / join wait (seed {tseed}, {threads} threads); library frames: {frames}",
                          {"cmd": cmd, "gdb": bt[-8000:]})
        else:
            inconclusive = inconclusive or "a trial exceeded the wall-clock watchdog but its thread backtraces do not show every thread parked on a lock (inconclusive, not a violation)"
            notes.append(bt[-1500:])
    C["distinct_interleavings"] = len(fingerprints)
    C["distinct_k_assignments"] = len(kassign)
    cov["distinct_nontrivial"] = len(fingerprints)

    # ---------------- (2) ThreadSanitizer
    n_tsan = int({"quick": 100, "thorough": 2000}[tier] * float(os.environ.get("VERIF_SCALE", "1")))
    tsan_target = os.path.join(chk.VERIF, "target-tsan")
    env_ts = dict(chk.ENV)
    env_ts.update({"CARGO_TARGET_DIR": tsan_target, "RUSTFLAGS": "-Zsanitizer=thread -Cdebuginfo=1"})
    t1 = time.time()
    p = subprocess.run(["cargo", "+nightly", "build", "--offline", "-Zbuild-std", "--target", "x86_64-unknown-linux-gnu", "--manifest-path", os.path.join(chk.HARNESS, "Cargo.toml"),
                        "--features", "hooks,mt", "--bin", "c20_trial"], env=env_ts, stdout=subprocess.PIPE, stderr=subprocess.STDOUT, text=True)
    C["tsan_build_s"] = round(time.time() - t1, 1)
    if p.returncode != 0:
        chk.log(p.stdout[-3000:])
        inconclusive = inconclusive or "ThreadSanitizer build failed (see stderr); TSan engine did not run"
    else:
        tsan_bin = os.path.join(tsan_target, "x86_64-unknown-linux-gnu", "debug", "c20_trial")
        env_run = dict(chk.ENV)
        env_run["TSAN_OPTIONS"] = "halt_on_error=1 exitcode=66 second_deadlock_stack=1"
        outdir = os.path.join(work, "tsan")
        os.makedirs(outdir)
        procs = []
        reports = {}
        hung = [0]

        def reap(block):
            nonlocal inconclusive
            keep = []
            for (i, tseed, threads, out, pr, st, errp) in procs:
                rc = pr.poll()
                if rc is None and (block or time.time() - st > 120):
                    try:
                        rc = pr.wait(timeout=120 if block else 0.01)
                    except subprocess.TimeoutExpired:
                        pr.kill()
                        pr.wait()
                        hung[0] += 1
                        inconclusive = inconclusive or "a ThreadSanitizer trial exceeded the watchdog"
                        continue
                if rc is None:
                    keep.append((i, tseed, threads, out, pr, st, errp))
                    continue
                C["trials_tsan"] = C.get("trials_tsan", 0) + 1
                err = open(errp, encoding="utf-8", errors="replace").read()
                if rc == 66 or "WARNING: ThreadSanitizer" in err:
                    # dedupe by report kind + first in-repo frame
                    kind = "data-race" if "data race" in err else ("lock-order" if "lock-order" in err else "report")
                    frame = "?"
                    for line in err.splitlines():
                        if "/repo/src/" in line:
                            frame = line.split("/repo/")[1].split(":")[0]
                            break
                    add_violation(f"tsan/{kind}/{frame}", f"ThreadSanitizer report (seed {tseed}, {threads} threads): {err[:1500]}", {"trial_seed": tseed, "threads": threads, "report": err[:6000]})
                elif rc != 0:
                    add_violation(f"tsan/trial-crashed/exit{rc}", f"TSan trial exited with {rc}: {err[-500:]}", {"trial_seed": tseed})
                else:
                    r = check_history(out, ref_mt or ref, "tsan", tseed, threads)
                    if r:
                        fingerprints.add(("tsan", r[0]))
                        cov["evaluations"] += r[2]
            procs[:] = keep

        for i in range(n_tsan):
            while len(procs) >= chk.NPROC:
                reap(False)
                time.sleep(0.01)
            if hung[0] >= 4:
                # trials keep hanging (the native engine classifies hangs with a debugger): no point in waiting
                # two minutes for each of the remaining ones
                C["tsan_engine_stopped_after_hung_trials"] = hung[0]
                break
            tseed = (seed * 1000003 + i * 104729 + 99) & 0xffffffff
            threads = thread_choices[i % len(thread_choices)]
            out = os.path.join(outdir, f"t{i}.log")
            errp = os.path.join(outdir, f"t{i}.err")
            pr = subprocess.Popen([tsan_bin, "--seed", str(tseed), "--threads", str(threads), "--len", "16", "--out", out], env=env_run, stdout=subprocess.DEVNULL, stderr=open(errp, "w"))
            procs.append((i, tseed, threads, out, pr, time.time(), errp))
        while procs:
            reap(True)

    # ---------------- (3) Miri, many seeds
    n_miri = int({"quick": 16, "thorough": 128}[tier] * float(os.environ.get("VERIF_SCALE", "1")))
    miri_target = os.path.join(chk.VERIF, "target-miri")
    outdir = os.path.join(work, "miri")
    os.makedirs(outdir)
    env_mi = dict(chk.ENV)
    env_mi.update({"CARGO_TARGET_DIR": miri_target, "MIRIFLAGS": f"-Zmiri-disable-isolation -Zmiri-many-seeds=0..{n_miri}"})
    t1 = time.time()
    mseed = (seed * 31 + 17) & 0xffff
    p = subprocess.run(["cargo", "+nightly", "miri", "run", "--offline", "--manifest-path", os.path.join(chk.HARNESS, "Cargo.toml"), "--features", "hooks,mt", "--bin", "c20_trial", "--",
                        "--seed", str(mseed), "--threads", "3", "--len", "5", "--out-dir", outdir],
                       env=env_mi, stdout=subprocess.PIPE, stderr=subprocess.STDOUT, text=True, timeout=3 * 3600)
    C["miri_wall_s"] = round(time.time() - t1, 1)
    out = p.stdout
    bad = [k for k in ("Undefined Behavior", "data race", "Data race", "deadlock", "memory leak") if k in out]
    logs = glob.glob(os.path.join(outdir, "trial-*.log"))
    C["miri_seeds_requested"] = n_miri
    C["miri_schedules_completed"] = len(logs)
    if bad:
        first = out[out.find(bad[0]) - 400: out.find(bad[0]) + 2500]
        kind = "deadlock" if "deadlock" in bad else ("data-race" if any("ace" in b for b in bad) else "undefined-behaviour")
        add_violation(f"miri/{kind}", f"Miri reported: {first[:1500]}", {"miri_flags": env_mi["MIRIFLAGS"], "trial_args": ["--seed", mseed, "--threads", 3, "--len", 5], "report": first})
    elif p.returncode != 0:
        chk.log(out[-3000:])
        inconclusive = inconclusive or f"Miri run failed without a diagnosable report (exit {p.returncode})"
    miri_fps = set()
    for lg in logs:
        r = check_history(lg, ref_mt or ref, "miri", mseed, 3)
        if r:
            miri_fps.add(r[0])
            fingerprints.add(("miri", r[0]))
            cov["evaluations"] += r[2]
    C["miri_distinct_schedules"] = len(miri_fps)
    if not bad and p.returncode == 0 and len(logs) < max(1, n_miri // 2):
        inconclusive = inconclusive or "Miri completed fewer schedules than requested"

    cov["distinct_nontrivial"] = len(fingerprints)
    cov["notes"] = notes[:10]
    for key in meta.get("required_counters", []):
        if C.get(key, 0) == 0 and not viols:
            inconclusive = (inconclusive + "; " if inconclusive else "") + f"monitor sub-clause '{key}' observed zero events"
    rc = chk.finish("C20", tier, seed, "exploration", cov, viols, known, t0, inconclusive, meta.get("assumptions"))
    if rc == 0 and not os.environ.get("VERIF_KEEP_WORK"):
        shutil.rmtree(work, ignore_errors=True)
    return rc
