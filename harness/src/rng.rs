//! Deterministic PRNG: every random choice in the harness derives from VERIF_SEED.

#[derive(Clone, Debug)]
pub struct Rng {
    s: [u64; 4],
}

pub fn splitmix(x: &mut u64) -> u64 {
    *x = x.wrapping_add(0x9E37_79B9_7F4A_7C15);
    let mut z = *x;
    z = (z ^ (z >> 30)).wrapping_mul(0xBF58_476D_1CE4_E5B9);
    z = (z ^ (z >> 27)).wrapping_mul(0x94D0_49BB_1331_11EB);
    z ^ (z >> 31)
}

pub fn fnv(s: &str) -> u64 {
    let mut h: u64 = 0xcbf29ce484222325;
    for b in s.bytes() {
        h ^= b as u64;
        h = h.wrapping_mul(0x100000001b3);
    }
    h
}

/// Seed for case `case` of property `prop` under run seed `seed`; independent of sharding.
pub fn case_seed(seed: u64, prop: &str, case: u64) -> u64 {
    let mut x = seed ^ fnv(prop).rotate_left(17) ^ case.wrapping_mul(0xD6E8_FEB8_6659_FD93);
    let a = splitmix(&mut x);
    let b = splitmix(&mut x);
    a ^ b.rotate_left(32)
}

impl Rng {
    pub fn new(seed: u64) -> Self {
        let mut x = seed;
        let s = [splitmix(&mut x), splitmix(&mut x), splitmix(&mut x), splitmix(&mut x)];
        Rng { s }
    }
    pub fn for_case(seed: u64, prop: &str, case: u64) -> Self {
        Self::new(case_seed(seed, prop, case))
    }
    pub fn next_u64(&mut self) -> u64 {
        let r = self.s[1].wrapping_mul(5).rotate_left(7).wrapping_mul(9);
        let t = self.s[1] << 17;
        self.s[2] ^= self.s[0];
        self.s[3] ^= self.s[1];
        self.s[1] ^= self.s[2];
        self.s[0] ^= self.s[3];
        self.s[2] ^= t;
        self.s[3] = self.s[3].rotate_left(45);
        r
    }
    /// uniform in 0..n (n>0)
    pub fn below(&mut self, n: usize) -> usize {
        if n <= 1 {
            return 0;
        }
        (self.next_u64() % (n as u64)) as usize
    }
    pub fn range(&mut self, lo: usize, hi_incl: usize) -> usize {
        lo + self.below(hi_incl - lo + 1)
    }
    pub fn chance(&mut self, num: u32, den: u32) -> bool {
        (self.next_u64() % den as u64) < num as u64
    }
    pub fn pick<'a, T>(&mut self, xs: &'a [T]) -> &'a T {
        &xs[self.below(xs.len())]
    }
    pub fn bytes(&mut self, n: usize) -> Vec<u8> {
        let mut v = Vec::with_capacity(n);
        while v.len() < n {
            let x = self.next_u64().to_le_bytes();
            let k = (n - v.len()).min(8);
            v.extend_from_slice(&x[..k]);
        }
        v
    }
    pub fn shuffle<T>(&mut self, xs: &mut [T]) {
        for i in (1..xs.len()).rev() {
            let j = self.below(i + 1);
            xs.swap(i, j);
        }
    }
    pub fn fork(&mut self) -> Rng {
        Rng::new(self.next_u64())
    }
}

