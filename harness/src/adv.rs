//! Adversarial values: inputs that a uniform random generator practically never produces but that
//! typical shortcuts trip over — digests sharing a prefix, payloads with a chosen CRC-32, payload
//! pairs with equal length and CRC-32, special numbers, near-miss digests.

use std::collections::HashMap;

use crate::spec::{encode, sha256, sha256_cat, Item, D32};

// ---------------------------------------------------------------------------------------------
// CRC-32 (IEEE 802.3, reflected) and suffix forging
// ---------------------------------------------------------------------------------------------

fn table() -> [u32; 256] {
    let mut t = [0u32; 256];
    for i in 0..256u32 {
        let mut c = i;
        for _ in 0..8 {
            c = if c & 1 != 0 { 0xEDB8_8320 ^ (c >> 1) } else { c >> 1 };
        }
        t[i as usize] = c;
    }
    t
}

pub fn crc32(data: &[u8]) -> u32 {
    let t = table();
    let mut s = 0xFFFF_FFFFu32;
    for b in data {
        s = (s >> 8) ^ t[((s ^ *b as u32) & 0xff) as usize];
    }
    s ^ 0xFFFF_FFFF
}

/// four bytes X such that crc32(prefix ‖ X) == target
pub fn crc_suffix(prefix: &[u8], target: u32) -> [u8; 4] {
    let t = table();
    let mut rev = [0u8; 256];
    for (i, v) in t.iter().enumerate() {
        rev[(v >> 24) as usize] = i as u8;
    }
    // state after the prefix (before the final xor)
    let mut s = 0xFFFF_FFFFu32;
    for b in prefix {
        s = (s >> 8) ^ t[((s ^ *b as u32) & 0xff) as usize];
    }
    // run the register backwards from the wanted final state
    let mut y = target ^ 0xFFFF_FFFF;
    for _ in 0..4 {
        let idx = rev[(y >> 24) as usize];
        y = ((y ^ t[idx as usize]) << 8) | idx as u32;
    }
    (y ^ s).to_le_bytes()
}

/// A byte-string leaf envelope encoding `#6.200(#6.201(h'...'))` whose CRC-32 is `target`.
/// Returns the byte string content (tag ‖ 4 forged bytes).
pub fn bytes_leaf_with_crc(tag: &[u8], target: u32) -> Vec<u8> {
    let mut content = tag.to_vec();
    content.extend_from_slice(&[0, 0, 0, 0]);
    let enc = encode(&Item::Tag(200, Box::new(Item::Tag(201, Box::new(Item::Bytes(content.clone()))))));
    let prefix = &enc[..enc.len() - 4];
    let sfx = crc_suffix(prefix, target);
    let n = content.len();
    content[n - 4..].copy_from_slice(&sfx);
    content
}

/// digests that are simple functions of `d` (what a shortened / folded / hashed-again comparison of digests
/// would confuse with `d`): 8-byte words permuted, bytes reversed, the leading or trailing half / all but the
/// last byte kept and the rest changed
pub fn related_digests(d: &[u8; 32]) -> Vec<(&'static str, [u8; 32])> {
    let w = |i: usize| -> [u8; 8] { d[i * 8..i * 8 + 8].try_into().unwrap() };
    let join = |a: [u8; 8], b: [u8; 8], c: [u8; 8], e: [u8; 8]| -> [u8; 32] {
        let mut o = [0u8; 32];
        o[..8].copy_from_slice(&a);
        o[8..16].copy_from_slice(&b);
        o[16..24].copy_from_slice(&c);
        o[24..].copy_from_slice(&e);
        o
    };
    let mut out: Vec<(&'static str, [u8; 32])> = vec![
        ("words-01-swapped", join(w(1), w(0), w(2), w(3))),
        ("words-23-swapped", join(w(0), w(1), w(3), w(2))),
        ("words-rotated", join(w(1), w(2), w(3), w(0))),
        ("words-reversed", join(w(3), w(2), w(1), w(0))),
    ];
    let mut r = *d;
    r.reverse();
    out.push(("bytes-reversed", r));
    let mut a = *d;
    a[31] ^= 0x01;
    out.push(("last-bit-differs", a));
    let mut a = *d;
    a[31] = a[31].wrapping_add(1);
    a[30] ^= 0x80;
    out.push(("last-two-bytes-differ", a));
    let mut a = *d;
    for b in a[16..].iter_mut() {
        *b = !*b;
    }
    out.push(("leading-half-equal", a));
    let mut a = *d;
    for b in a[..16].iter_mut() {
        *b = !*b;
    }
    out.push(("trailing-half-equal", a));
    let mut a = *d;
    a[0] ^= 0x80;
    out.push(("first-bit-differs", a));
    out.retain(|(_, x)| x != d);
    out
}

/// a different byte string of the same length and the same CRC-32 as `b` (one byte in the middle changed, the
/// last four bytes solved for); None when `b` is shorter than 6 bytes
pub fn same_len_same_crc(b: &[u8]) -> Option<Vec<u8>> {
    if b.len() < 6 {
        return None;
    }
    let mut o = b.to_vec();
    let mid = (b.len() - 4) / 2;
    o[mid] ^= 0x5a;
    let n = o.len();
    let sfx = crc_suffix(&o[..n - 4], crc32(b));
    o[n - 4..].copy_from_slice(&sfx);
    if o == b { None } else { Some(o) }
}

pub const SPECIAL_CRCS: [u32; 10] = [0xFFFF_FFFF, 0, 1, 0xFFFF_FFFE, 0x7FFF_FFFF, 0x8000_0000, 0x0000_FFFF, 0xFFFF_0000, 0x0100_0000, 0x00FF_FFFF];

// ---------------------------------------------------------------------------------------------
// digests sharing a prefix
// ---------------------------------------------------------------------------------------------

fn leaf_digest(item: &Item) -> D32 {
    sha256(&encode(item))
}

/// digest of the assertion `pred_text : n` by the specification's rules
pub fn serial_assertion_digest(pred: &str, n: u64) -> D32 {
    sha256_cat(&[leaf_digest(&Item::Text(pred.to_string())), leaf_digest(&Item::UInt(n))])
}

/// two numbers n1 != n2 such that the assertions `pred: n1` and `pred: n2` have digests agreeing in
/// their first `nbytes` bytes (birthday search; nbytes <= 4 takes well under a second)
pub fn prefix_collision(pred: &str, nbytes: usize, start: u64) -> (u64, u64) {
    let mut seen: HashMap<Vec<u8>, u64> = HashMap::new();
    let mut n = start;
    loop {
        let d = serial_assertion_digest(pred, n);
        let k = d[..nbytes].to_vec();
        if let Some(m) = seen.get(&k) {
            return (*m, n);
        }
        seen.insert(k, n);
        n += 1;
    }
}

/// a number n such that the assertion `pred: n` has a digest starting with the same `nbytes` as `d`
pub fn prefix_match(pred: &str, d: &D32, nbytes: usize, start: u64) -> u64 {
    let mut n = start;
    loop {
        if serial_assertion_digest(pred, n)[..nbytes] == d[..nbytes] {
            return n;
        }
        n += 1;
    }
}

// ---------------------------------------------------------------------------------------------
// special numbers
// ---------------------------------------------------------------------------------------------

/// known-value / integer numbers around every table size and width boundary one might pick
pub fn special_numbers() -> Vec<u64> {
    let mut v: Vec<u64> = (0..=1100).collect();
    for k in 10..64u32 {
        let p = 1u64 << k;
        v.extend_from_slice(&[p - 1, p, p + 1]);
    }
    // values whose low 32 (or 16) bits alias small numbers
    for low in [0u64, 1, 2, 3, 4, 5, 10, 15, 16, 100, 255, 256, 600, 1000, 1023] {
        v.push((1u64 << 32) + low);
        v.push((5u64 << 32) | low);
        v.push((1u64 << 16) + low);
        v.push((1u64 << 48) + low);
    }
    v.extend_from_slice(&[u64::MAX, u64::MAX - 1, i64::MAX as u64, (i64::MAX as u64) + 1, u32::MAX as u64, u32::MAX as u64 + 1]);
    v.sort();
    v.dedup();
    v
}

#[cfg(test)]
mod tests {
    use super::*;

    #[test]
    fn crc_matches_reference() {
        assert_eq!(crc32(b"123456789"), 0xCBF4_3926);
        assert_eq!(crc32(b""), 0);
        assert_eq!(bc_crypto_crc(b"Lorem"), crc32(b"Lorem"));
    }

    fn bc_crypto_crc(d: &[u8]) -> u32 {
        // Compressed::from_uncompressed_data computes the same checksum; its Debug prints it
        let c = bc_components::Compressed::from_uncompressed_data(d.to_vec(), None);
        let s = format!("{:?}", c);
        let hexs = s.split("checksum: ").nth(1).unwrap().split(',').next().unwrap();
        u32::from_str_radix(hexs, 16).unwrap()
    }

    #[test]
    fn forge() {
        for target in SPECIAL_CRCS {
            let sfx = crc_suffix(b"hello world", target);
            let mut m = b"hello world".to_vec();
            m.extend_from_slice(&sfx);
            assert_eq!(crc32(&m), target);
            let content = bytes_leaf_with_crc(b"tag", target);
            let enc = encode(&Item::Tag(200, Box::new(Item::Tag(201, Box::new(Item::Bytes(content))))));
            assert_eq!(crc32(&enc), target);
        }
    }

    #[test]
    fn collisions() {
        let (a, b) = prefix_collision("serial", 2, 0);
        assert_ne!(a, b);
        assert_eq!(serial_assertion_digest("serial", a)[..2], serial_assertion_digest("serial", b)[..2]);
    }
}
