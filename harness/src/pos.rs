//! S3 — position maps and a neutral tree view, computed by the harness's own recursion
//! over `Envelope::case()` (never through `Envelope::walk`, which is itself under test).

use bc_components::DigestProvider;
use bc_envelope::base::envelope::EnvelopeCase;
use bc_envelope::Envelope;

use crate::spec::{Kind, SEnv, D32};

#[derive(Clone, Copy, PartialEq, Eq, Hash, Debug, PartialOrd, Ord)]
pub enum Edge {
    Subject,
    Assertion(u16),
    Predicate,
    Object,
    Wrapped,
}

pub type Path = Vec<Edge>;

pub fn path_str(p: &[Edge]) -> String {
    if p.is_empty() {
        return "/".into();
    }
    let mut s = String::new();
    for e in p {
        s.push('/');
        match e {
            Edge::Subject => s.push_str("subj"),
            Edge::Assertion(k) => s.push_str(&format!("a{}", k)),
            Edge::Predicate => s.push_str("pred"),
            Edge::Object => s.push_str("obj"),
            Edge::Wrapped => s.push_str("wrap"),
        }
    }
    s
}

/// Neutral tree: what both the spec side (parsed bytes) and the library side (case()) reduce to.
#[derive(Clone, Debug, PartialEq, Eq)]
pub struct T {
    pub kind: Kind,
    pub digest: D32,
    /// Leaf: dCBOR bytes of the leaf value
    pub leaf: Option<Vec<u8>>,
    pub kv: Option<u64>,
    pub children: Vec<T>,
}

pub fn d32(e: &Envelope) -> D32 {
    *e.digest().data()
}

pub fn kind_of(e: &Envelope) -> Kind {
    match e.case() {
        EnvelopeCase::Node { .. } => Kind::Node,
        EnvelopeCase::Leaf { .. } => Kind::Leaf,
        EnvelopeCase::Wrapped { .. } => Kind::Wrapped,
        EnvelopeCase::Assertion(_) => Kind::Assertion,
        EnvelopeCase::Elided(_) => Kind::Elided,
        EnvelopeCase::KnownValue { .. } => Kind::KnownValue,
        EnvelopeCase::Encrypted(_) => Kind::Encrypted,
        EnvelopeCase::Compressed(_) => Kind::Compressed,
    }
}

/// children of an envelope with their edges, from `case()` only
pub fn children_of(e: &Envelope) -> Vec<(Edge, Envelope)> {
    match e.case() {
        EnvelopeCase::Node { subject, assertions, .. } => {
            let mut v = vec![(Edge::Subject, subject.clone())];
            for (i, a) in assertions.iter().enumerate() {
                v.push((Edge::Assertion(i as u16), a.clone()));
            }
            v
        }
        EnvelopeCase::Wrapped { envelope, .. } => vec![(Edge::Wrapped, envelope.clone())],
        EnvelopeCase::Assertion(a) => vec![(Edge::Predicate, a.predicate()), (Edge::Object, a.object())],
        _ => vec![],
    }
}

/// every encrypted element of `e` as (nonce, ciphertext), by the harness's own recursion
pub fn encrypted_elements(e: &Envelope) -> Vec<([u8; 12], Vec<u8>)> {
    let mut out = Vec::new();
    fn rec(e: &Envelope, out: &mut Vec<([u8; 12], Vec<u8>)>) {
        if let EnvelopeCase::Encrypted(m) = e.case() {
            out.push((*m.nonce().data(), m.ciphertext().clone()));
        }
        for (_, c) in children_of(e) {
            rec(&c, out);
        }
    }
    rec(e, &mut out);
    out
}

pub fn tree_of(e: &Envelope) -> T {
    let kind = kind_of(e);
    let (leaf, kv) = match e.case() {
        EnvelopeCase::Leaf { cbor, .. } => (Some(cbor.to_cbor_data()), None),
        EnvelopeCase::KnownValue { value, .. } => (None, Some(value.value())),
        _ => (None, None),
    };
    T { kind, digest: d32(e), leaf, kv, children: children_of(e).iter().map(|(_, c)| tree_of(c)).collect() }
}

pub fn tree_of_spec(s: &SEnv, data: &[u8]) -> T {
    T {
        kind: s.kind,
        digest: s.digest,
        leaf: s.leaf.map(|(a, b)| data[a..b].to_vec()),
        kv: s.kv,
        children: s.children.iter().map(|c| tree_of_spec(c, data)).collect(),
    }
}

impl T {
    pub fn edges(&self) -> Vec<Edge> {
        match self.kind {
            Kind::Node => {
                let mut v = vec![Edge::Subject];
                for i in 1..self.children.len() {
                    v.push(Edge::Assertion((i - 1) as u16));
                }
                v
            }
            Kind::Wrapped => vec![Edge::Wrapped],
            Kind::Assertion => vec![Edge::Predicate, Edge::Object],
            _ => vec![],
        }
    }
    /// an assertion element decorated twice without wrapping (node over node over ...); `obscured_core`: the
    /// innermost subject is a placeholder
    pub fn has_twice_decorated_assertion(&self, obscured_core: bool) -> bool {
        if self.kind == Kind::Node {
            for a in self.children.iter().skip(1) {
                if a.kind == Kind::Node && a.children[0].kind == Kind::Node {
                    let mut core = &a.children[0];
                    while core.kind == Kind::Node {
                        core = &core.children[0];
                    }
                    if !obscured_core || matches!(core.kind, Kind::Elided | Kind::Encrypted | Kind::Compressed) {
                        return true;
                    }
                }
            }
        }
        self.children.iter().any(|c| c.has_twice_decorated_assertion(obscured_core))
    }
    pub fn count(&self) -> usize {
        1 + self.children.iter().map(|c| c.count()).sum::<usize>()
    }
    pub fn depth(&self) -> usize {
        1 + self.children.iter().map(|c| c.depth()).max().unwrap_or(0)
    }
    /// pre-order flattening with paths
    pub fn flatten(&self) -> Vec<(Path, &T)> {
        let mut out = Vec::new();
        fn rec<'a>(t: &'a T, path: &mut Path, out: &mut Vec<(Path, &'a T)>) {
            out.push((path.clone(), t));
            for (e, c) in t.edges().into_iter().zip(t.children.iter()) {
                path.push(e);
                rec(c, path, out);
                path.pop();
            }
        }
        rec(self, &mut vec![], &mut out);
        out
    }
    pub fn at(&self, path: &[Edge]) -> Option<&T> {
        let mut cur = self;
        for e in path {
            let idx = cur.edges().iter().position(|x| x == e)?;
            cur = &cur.children[idx];
        }
        Some(cur)
    }
    /// structure signature (kinds + arities, no content)
    pub fn shape(&self, out: &mut Vec<u8>) {
        out.push(self.kind.code());
        if self.kind == Kind::Node {
            out.push(b'0' + (self.children.len().min(40) as u8));
        }
        if let Some(l) = &self.leaf {
            // leaf type class = CBOR major type + additional-info class
            out.push(b'a' + (l.first().copied().unwrap_or(0) >> 5));
        }
        for c in &self.children {
            c.shape(out);
        }
    }
    pub fn shape_hash(&self) -> u64 {
        let mut v = Vec::new();
        self.shape(&mut v);
        crate::rng::fnv(&String::from_utf8_lossy(&v))
    }
    pub fn has_obscured(&self) -> bool {
        self.kind.is_obscured() || self.children.iter().any(|c| c.has_obscured())
    }
    pub fn all_digests(&self) -> Vec<D32> {
        self.flatten().iter().map(|(_, t)| t.digest).collect()
    }
}

/// First difference between two trees (path + description), or None if equal.
pub fn diff(a: &T, b: &T) -> Option<String> {
    fn rec(a: &T, b: &T, path: &mut Path) -> Option<String> {
        if a.kind != b.kind {
            return Some(format!("{}: kind {:?} vs {:?}", path_str(path), a.kind, b.kind));
        }
        if a.digest != b.digest {
            return Some(format!("{}: digest {} vs {}", path_str(path), hex::encode(a.digest), hex::encode(b.digest)));
        }
        if a.leaf != b.leaf {
            return Some(format!("{}: leaf bytes differ", path_str(path)));
        }
        if a.kv != b.kv {
            return Some(format!("{}: known value {:?} vs {:?}", path_str(path), a.kv, b.kv));
        }
        if a.children.len() != b.children.len() {
            return Some(format!("{}: arity {} vs {}", path_str(path), a.children.len(), b.children.len()));
        }
        for ((e, x), y) in a.edges().into_iter().zip(a.children.iter()).zip(b.children.iter()) {
            path.push(e);
            if let Some(d) = rec(x, y, path) {
                return Some(d);
            }
            path.pop();
        }
        None
    }
    rec(a, b, &mut vec![])
}

/// Pre-order list of (path, envelope) straight from case().
pub fn positions(e: &Envelope) -> Vec<(Path, Envelope)> {
    let mut out = Vec::new();
    fn rec(e: &Envelope, path: &mut Path, out: &mut Vec<(Path, Envelope)>) {
        out.push((path.clone(), e.clone()));
        for (edge, c) in children_of(e) {
            path.push(edge);
            rec(&c, path, out);
            path.pop();
        }
    }
    rec(e, &mut vec![], &mut out);
    out
}
