//! Envelope universe: a shadow model (S2) with its own digest/byte rules, a generator of
//! model trees, and builders that assemble the real envelope through varying API routes.

use std::collections::HashSet;

use bc_components::{Digest, DigestProvider, SymmetricKey};
use bc_envelope::prelude::*;

use crate::pos::T;
use crate::rng::Rng;
use crate::spec::{self, encode, sha256, sha256_cat, Item, Kind, D32};

// ---------------------------------------------------------------------------------------------
// Model
// ---------------------------------------------------------------------------------------------

#[derive(Clone, Debug)]
pub enum M {
    Leaf(Item),
    Known(u64),
    Assertion(Box<M>, Box<M>),
    /// subject, assertion elements (any order, duplicates allowed: set semantics by digest)
    Node(Box<M>, Vec<M>),
    Wrapped(Box<M>),
}

impl M {
    /// expected tree by the specification's digest rules (nodes: assertions sorted, deduplicated)
    pub fn tree(&self) -> T {
        match self {
            M::Leaf(item) => {
                let bytes = encode(item);
                T { kind: Kind::Leaf, digest: sha256(&bytes), leaf: Some(bytes), kv: None, children: vec![] }
            }
            M::Known(n) => {
                let bytes = encode(&Item::Tag(spec::TAG_KNOWN_VALUE, Box::new(Item::UInt(*n))));
                T { kind: Kind::KnownValue, digest: sha256(&bytes), leaf: None, kv: Some(*n), children: vec![] }
            }
            M::Assertion(p, o) => {
                let p = p.tree();
                let o = o.tree();
                T { kind: Kind::Assertion, digest: sha256_cat(&[p.digest, o.digest]), leaf: None, kv: None, children: vec![p, o] }
            }
            M::Node(s, asr) => {
                let s = s.tree();
                let mut a: Vec<T> = asr.iter().map(|x| x.tree()).collect();
                a.sort_by(|x, y| x.digest.cmp(&y.digest));
                a.dedup_by(|x, y| x.digest == y.digest);
                if a.is_empty() {
                    return s;
                }
                let mut ds = vec![s.digest];
                ds.extend(a.iter().map(|x| x.digest));
                let mut children = vec![s];
                children.extend(a);
                T { kind: Kind::Node, digest: sha256_cat(&ds), leaf: None, kv: None, children }
            }
            M::Wrapped(x) => {
                let x = x.tree();
                T { kind: Kind::Wrapped, digest: sha256_cat(&[x.digest]), leaf: None, kv: None, children: vec![x] }
            }
        }
    }

    /// expected canonical serialisation (untagged element) as an Item, by the spec's rules
    pub fn untagged_item(&self) -> Item {
        tree_item(&self.tree())
    }

    pub fn bytes(&self) -> Vec<u8> {
        encode(&Item::Tag(spec::TAG_ENVELOPE, Box::new(self.untagged_item())))
    }

    pub fn has_node_subject_node(&self) -> bool {
        match self {
            M::Node(s, a) => matches!(**s, M::Node(..)) || s.has_node_subject_node() || a.iter().any(|x| x.has_node_subject_node()),
            M::Assertion(p, o) => p.has_node_subject_node() || o.has_node_subject_node(),
            M::Wrapped(x) => x.has_node_subject_node(),
            _ => false,
        }
    }
}

/// Serialise an (un-obscured or elided-only) expected tree per the envelope grammar.
pub fn tree_item(t: &T) -> Item {
    match t.kind {
        Kind::Leaf => Item::Tag(spec::TAG_LEAF, Box::new(spec::parse_item(t.leaf.as_ref().unwrap()).expect("model leaf parses"))),
        Kind::KnownValue => Item::UInt(t.kv.unwrap()),
        Kind::Assertion => Item::Map(vec![(tree_item(&t.children[0]), tree_item(&t.children[1]))]),
        Kind::Node => Item::Array(t.children.iter().map(tree_item).collect()),
        Kind::Wrapped => Item::Tag(spec::TAG_ENVELOPE, Box::new(tree_item(&t.children[0]))),
        Kind::Elided => Item::Bytes(t.digest.to_vec()),
        Kind::Encrypted | Kind::Compressed => panic!("model cannot predict encrypted/compressed bytes"),
    }
}

pub fn tree_bytes(t: &T) -> Vec<u8> {
    encode(&Item::Tag(spec::TAG_ENVELOPE, Box::new(tree_item(t))))
}

// ---------------------------------------------------------------------------------------------
// Item -> dcbor::CBOR through dcbor's public constructors
// ---------------------------------------------------------------------------------------------

pub fn item_to_cbor(item: &Item) -> CBOR {
    match item {
        Item::UInt(n) => CBOR::from(*n),
        Item::NInt(n) => {
            if *n <= i64::MAX as u64 {
                CBOR::from(-1i64 - (*n as i64))
            } else {
                CBORCase::Negative(*n).into()
            }
        }
        Item::Bytes(b) => CBOR::to_byte_string(b),
        Item::Text(s) => CBOR::from(s.as_str()),
        Item::Array(xs) => CBOR::from(xs.iter().map(item_to_cbor).collect::<Vec<CBOR>>()),
        Item::Map(es) => {
            let mut m = dcbor::Map::new();
            for (k, v) in es {
                m.insert(item_to_cbor(k), item_to_cbor(v));
            }
            CBOR::from(m)
        }
        Item::Tag(t, x) => CBOR::to_tagged_value(*t, item_to_cbor(x)),
        Item::Simple(20) => CBOR::r#false(),
        Item::Simple(21) => CBOR::r#true(),
        Item::Simple(_) => CBOR::null(),
        Item::Float(f) => CBOR::from(*f),
    }
}

// ---------------------------------------------------------------------------------------------
// Generator
// ---------------------------------------------------------------------------------------------

#[derive(Clone, Debug)]
pub struct GenCfg {
    pub max_depth: usize,
    pub max_assertions: usize,
    /// allow nodes whose subject is a node (only constructible by decoding)
    pub node_subject: bool,
    /// text leaves carry unique markers (for residue scans)
    pub markers: bool,
    /// include big payloads (KB-sized text/bytes)
    pub big: bool,
    /// probability (per mille) that a predicate/object is itself complex
    pub complex_parts: u32,
    /// occasionally produce wide nodes (7..64 assertions)
    pub wide: bool,
}

impl GenCfg {
    pub fn small() -> Self {
        GenCfg { max_depth: 3, max_assertions: 3, node_subject: false, markers: true, big: false, complex_parts: 250, wide: true }
    }
    pub fn medium() -> Self {
        GenCfg { max_depth: 4, max_assertions: 5, node_subject: false, markers: true, big: true, complex_parts: 300, wide: true }
    }
    pub fn large() -> Self {
        GenCfg { max_depth: 7, max_assertions: 12, node_subject: false, markers: true, big: true, complex_parts: 300, wide: true }
    }
}

pub struct Gen<'a> {
    pub rng: &'a mut Rng,
    pub cfg: GenCfg,
    pub case: u64,
    pub marker_n: u32,
    /// previously generated sub-models, reused so the same sub-envelope occurs at several positions
    pub pool: Vec<M>,
}

const UINTS: [u64; 19] = [0, 1, 23, 24, 255, 256, 65535, 65536, 0x8000_0000, 0xC000_0000, 0xffff_ff00, 0xffff_ffff, 0x1_0000_0000, 1 << 53, i64::MAX as u64, 1 << 63, (1 << 63) + 2048, u64::MAX - 1, u64::MAX];
const NINTS: [u64; 9] = [0, 23, 24, 255, 256, 65535, 65536, 0x8000_0000, i64::MAX as u64];
const FLOATS: [f64; 24] = [
    1.5, -1.5, 0.1, 1.1, 65504.0 + 0.5, 5.960464477539063e-8, 3.4028234663852886e38, 1.0e300, -1.0e300, f64::INFINITY, f64::NEG_INFINITY, f64::NAN, 2.5, 1.0e-10, 100000.25,
    0.333251953125,
    // integral values (the same leaf as the integer), also beyond 32 bits and exactly representable in single precision
    2.0, -3.0, -0.0, 65536.0, 4294967296.0, -4294967296.0, 30000001024.0, 9.223372036854776e18,
];
// (the last five are NOT in NFC: dCBOR requires the encoder to normalise them)
const TEXTS: [&str; 15] = [
    "", "a", "Hello.", "knows", "Alice", "caf\u{e9}", "\u{1f600} grin", "\u{65e5}\u{672c}\u{8a9e}", "line\nbreak \"q\"", "Z\u{fc}rich \u{df}",
    "Cafe\u{301}", "\u{212b}ngstr\u{f6}m", "\u{1112}\u{1161}\u{11ab}", "o\u{308}\u{323}", "\u{fb01}ne \u{1e9b}\u{323}",
];
pub const KNOWN: [u64; 12] = [0, 1, 2, 3, 4, 5, 8, 9, 10, 13, 16, 100];

impl<'a> Gen<'a> {
    pub fn new(rng: &'a mut Rng, cfg: GenCfg, case: u64) -> Self {
        Gen { rng, cfg, case, marker_n: 0, pool: Vec::new() }
    }

    pub fn marker(&mut self) -> String {
        self.marker_n += 1;
        format!("MK{}.{}.{:08x}", self.case, self.marker_n, self.rng.next_u64() as u32)
    }

    pub fn scalar_item(&mut self) -> Item {
        match self.rng.below(12) {
            0 | 1 => Item::UInt(*self.rng.pick(&UINTS)),
            2 => Item::UInt(self.rng.next_u64() >> self.rng.below(64)),
            3 => Item::NInt(*self.rng.pick(&NINTS)),
            4 => Item::Float(*self.rng.pick(&FLOATS)),
            5 => Item::Simple(20 + self.rng.below(3) as u8),
            6 => {
                // (23/24, 255/256, 65535/65536: where the CBOR head of the length grows)
                let lens = [0usize, 1, 16, 23, 24, 31, 32, 33, 64, 255, 256];
                let mut n = *self.rng.pick(&lens);
                if self.cfg.big && self.rng.chance(1, 60) {
                    n = *self.rng.pick(&[65535usize, 65536]);
                }
                Item::Bytes(self.rng.bytes(n))
            }
            7 if self.rng.chance(1, 8) => {
                let mut n = *self.rng.pick(&[23usize, 24, 255, 256]);
                if self.cfg.big && self.rng.chance(1, 20) {
                    n = *self.rng.pick(&[65535usize, 65536]);
                }
                let m = if self.cfg.markers { self.marker() } else { "t".to_string() };
                let mut t = m;
                while t.len() < n {
                    t.push('x');
                }
                t.truncate(n);
                Item::Text(t)
            }
            7 => Item::Text(self.rng.pick(&TEXTS).to_string()),
            _ => {
                if self.cfg.markers {
                    Item::Text(self.marker())
                } else {
                    Item::Text(format!("t{}", self.rng.below(50)))
                }
            }
        }
    }

    pub fn item(&mut self, depth: usize) -> Item {
        if depth == 0 {
            return self.scalar_item();
        }
        match self.rng.below(24) {
            0 => {
                let n = self.rng.below(4);
                Item::Array((0..n).map(|_| self.item(depth - 1)).collect())
            }
            1 => {
                let n = self.rng.below(4);
                let mut es: Vec<(Item, Item)> = Vec::new();
                for _ in 0..n {
                    let k = self.scalar_item();
                    let v = self.item(depth - 1);
                    // unique keys only: which duplicate wins is dcbor's business, not the model's
                    if !es.iter().any(|(k2, _)| encode(k2) == encode(&k)) {
                        es.push((k, v));
                    }
                }
                Item::Map(es)
            }
            2 => {
                let tag = *self.rng.pick(&[1u64, 24, 32, 37, 100, 200, 201, 40000, 40001, 40002, 40003, 40012, 65536, 0xffff_ffff_ff]);
                let inner = self.item(depth - 1);
                // a leaf #6.40000(n) has by construction the same digest as the known value n: keep such
                // leaves away from the numbers used as known values, or "the same set of assertions" is ambiguous
                let inner = if tag == 40000 && matches!(inner, Item::UInt(_)) { Item::UInt(7_000_000 + self.rng.below(1000) as u64) } else { inner };
                Item::Tag(tag, Box::new(inner))
            }
            6 => {
                // a leaf that embeds an envelope's own tagged CBOR (and sometimes something envelope-like but malformed)
                match self.rng.below(4) {
                    0 => Item::Tag(200, Box::new(Item::Tag(201, Box::new(self.scalar_item())))),
                    1 => Item::Tag(200, Box::new(Item::Array(vec![Item::Tag(201, Box::new(self.scalar_item()))]))),
                    2 => Item::Tag(200, Box::new(Item::Array(vec![Item::Tag(201, Box::new(self.scalar_item())), Item::Map(vec![(Item::UInt(4), Item::Tag(201, Box::new(self.scalar_item())))])]))),
                    _ => Item::Tag(200, Box::new(Item::Bytes(self.rng.bytes(32)))),
                }
            }
            3 if self.cfg.big => {
                // compressible text 1-4 KB
                let n = self.rng.range(40, 160);
                let m = self.marker();
                Item::Text(format!("{} {}", m, "lorem ipsum dolor sit amet ".repeat(n)))
            }
            4 if self.cfg.big => {
                let n = self.rng.range(200, 1200);
                Item::Bytes(self.rng.bytes(n))
            }
            5 => typed_leaf_item(self.rng),
            _ => self.scalar_item(),
        }
    }

    fn leaf_or_known(&mut self) -> M {
        if self.rng.chance(1, 5) {
            if self.rng.chance(3, 4) {
                M::Known(*self.rng.pick(&KNOWN))
            } else {
                M::Known(*self.rng.pick(&[0u64, 23, 24, 255, 256, 65536, 1 << 40, u64::MAX]))
            }
        } else {
            M::Leaf(self.item(2))
        }
    }

    /// any envelope usable as a predicate/object/subject
    pub fn part(&mut self, depth: usize) -> M {
        if depth == 0 || !self.rng.chance(self.cfg.complex_parts, 1000) {
            if !self.pool.is_empty() && self.rng.chance(1, 12) {
                return self.rng.pick(&self.pool).clone();
            }
            return self.leaf_or_known();
        }
        let m = match self.rng.below(6) {
            0 | 1 => self.node(depth - 1),
            2 | 3 => M::Wrapped(Box::new(self.envelope(depth - 1))),
            4 => M::Assertion(Box::new(self.part(depth - 1)), Box::new(self.part(depth - 1))),
            _ => self.leaf_or_known(),
        };
        if self.pool.len() < 8 {
            self.pool.push(m.clone());
        }
        m
    }

    pub fn assertion_element(&mut self, depth: usize) -> M {
        let d = depth.saturating_sub(1);
        let pred = if self.rng.chance(2, 5) { M::Known(*self.rng.pick(&KNOWN)) } else { self.part(d) };
        let a = M::Assertion(Box::new(pred), Box::new(self.part(d)));
        if self.rng.chance(1, 7) {
            // assertion carrying its own assertions (metadata / salt-like)
            let n = self.rng.range(1, 2);
            let meta = (0..n).map(|_| M::Assertion(Box::new(self.part(0)), Box::new(self.part(0)))).collect();
            let once = M::Node(Box::new(a), meta);
            if self.cfg.node_subject && self.rng.chance(1, 3) {
                // ... decorated a second time WITHOUT wrapping (a node whose subject is a node whose subject is
                // the assertion): only decoding produces this shape
                let meta2 = vec![M::Assertion(Box::new(self.part(0)), Box::new(self.part(0)))];
                M::Node(Box::new(once), meta2)
            } else {
                once
            }
        } else {
            a
        }
    }

    pub fn node(&mut self, depth: usize) -> M {
        let mut n = self.rng.range(1, self.cfg.max_assertions.max(1));
        // now and then a wide node, at and around power-of-two widths
        if self.cfg.wide && self.rng.chance(1, 40) {
            n = *self.rng.pick(&[7usize, 8, 9, 15, 16, 17, 22, 23, 24, 31, 32, 33, 63, 64, 65, 100, 127, 128, 129, 254, 255, 256, 257]);
            let subject = self.leaf_or_known();
            let asr: Vec<M> = (0..n).map(|i| M::Assertion(Box::new(M::Leaf(Item::UInt(i as u64))), Box::new(self.part(0)))).collect();
            return M::Node(Box::new(subject), asr);
        }
        let subject = if self.cfg.node_subject && depth > 0 && self.rng.chance(1, 8) {
            self.node(depth - 1)
        } else {
            match self.rng.below(8) {
                0 if depth > 0 => M::Wrapped(Box::new(self.envelope(depth - 1))),
                1 if depth > 0 => M::Assertion(Box::new(self.part(depth - 1)), Box::new(self.part(depth - 1))),
                _ => self.leaf_or_known(),
            }
        };
        let mut asr: Vec<M> = Vec::new();
        for _ in 0..n {
            if !asr.is_empty() && self.rng.chance(1, 10) {
                // repeated predicate with a different object
                if let M::Assertion(p, _) = &asr[0] {
                    let p = p.clone();
                    asr.push(M::Assertion(p, Box::new(self.part(0))));
                    continue;
                }
            }
            asr.push(self.assertion_element(depth));
        }
        M::Node(Box::new(subject), asr)
    }

    /// a top-level envelope of any case
    pub fn envelope(&mut self, depth: usize) -> M {
        match self.rng.below(10) {
            0 => self.leaf_or_known(),
            1 if depth > 0 => M::Wrapped(Box::new(self.envelope(depth - 1))),
            2 => M::Assertion(Box::new(self.part(depth.saturating_sub(1))), Box::new(self.part(depth.saturating_sub(1)))),
            _ => self.node(depth),
        }
    }

    pub fn top(&mut self) -> M {
        let d = self.rng.range(1, self.cfg.max_depth);
        self.envelope(d)
    }
}

/// leaf items produced from library value types (dates, digests, ARIDs, ...), taken from their
/// own CBOR encodings.
pub fn typed_leaf_item(rng: &mut Rng) -> Item {
    let cbor: CBOR = match rng.below(7) {
        0 => dcbor::Date::from_timestamp((rng.below(4_000_000_000) as f64) - 1_000_000_000.0).into(),
        1 => dcbor::Date::from_timestamp((rng.below(2_000_000) as f64) / 8.0).into(),
        2 => Digest::from_image(rng.bytes(8)).into(),
        3 => bc_components::ARID::from_data_ref(rng.bytes(32)).unwrap().into(),
        4 => bc_components::UUID::from_data_ref(rng.bytes(16)).unwrap().into(),
        5 => bc_components::URI::new(format!("https://example.com/{}", rng.below(1000))).unwrap().into(),
        _ => bc_components::Salt::from_data(rng.bytes(12)).into(),
    };
    spec::parse_item(&cbor.to_cbor_data()).expect("library value encodes to dCBOR the spec parser accepts")
}

// ---------------------------------------------------------------------------------------------
// Builders: model -> real envelope through the public API
// ---------------------------------------------------------------------------------------------

#[derive(Clone, Copy, Debug, PartialEq, Eq)]
pub enum Route {
    /// straightforward bottom-up, assertions in model order via add_assertion / add_assertion_envelope
    Plain,
    /// shuffled insertion order, duplicate insertions, new_assertion + add_assertion_envelope(s)
    Shuffled,
    /// build on a dummy subject, then replace_subject with the real one
    ReplaceSubject,
    /// add an extra assertion, then remove it again; wrap/unwrap detours
    Detour,
    /// decode the model's own expected bytes
    Decode,
}

pub const API_ROUTES: [Route; 4] = [Route::Plain, Route::Shuffled, Route::ReplaceSubject, Route::Detour];

pub fn build_leaf(item: &Item, rng: &mut Rng) -> Envelope {
    // typed constructors where one exists (every integer and float width the value fits, the library's
    // value types for tagged leaves), else through CBOR
    if rng.chance(2, 3) {
        match item {
            Item::Text(s) => return if rng.chance(1, 2) { Envelope::new(s.as_str()) } else { Envelope::new(s.clone()) },
            Item::UInt(n) => {
                let n = *n;
                return match rng.below(6) {
                    0 if n <= u8::MAX as u64 => Envelope::new(n as u8),
                    1 if n <= u16::MAX as u64 => Envelope::new(n as u16),
                    2 if n <= u32::MAX as u64 => Envelope::new(n as u32),
                    3 => Envelope::new(n as usize),
                    4 if n <= i64::MAX as u64 => match rng.below(4) {
                        0 if n <= i8::MAX as u64 => Envelope::new(n as i8),
                        1 if n <= i16::MAX as u64 => Envelope::new(n as i16),
                        2 if n <= i32::MAX as u64 => Envelope::new(n as i32),
                        _ => Envelope::new(n as i64),
                    },
                    // an integral value given as a float is the same leaf (numeric reduction)
                    5 if (n as f64) as u128 == n as u128 => {
                        let f = n as f64;
                        if ((f as f32) as f64) == f && rng.chance(1, 2) { Envelope::new(f as f32) } else { Envelope::new(f) }
                    }
                    _ => Envelope::new(n),
                };
            }
            Item::NInt(n) if *n < i64::MAX as u64 => {
                let v = -1i64 - (*n as i64);
                return match rng.below(5) {
                    0 if v >= i8::MIN as i64 => Envelope::new(v as i8),
                    1 if v >= i16::MIN as i64 => Envelope::new(v as i16),
                    2 if v >= i32::MIN as i64 => Envelope::new(v as i32),
                    3 if (v as f64) as i128 == v as i128 => {
                        let f = v as f64;
                        if ((f as f32) as f64) == f && rng.chance(1, 2) { Envelope::new(f as f32) } else { Envelope::new(f) }
                    }
                    _ => Envelope::new(v),
                };
            }
            Item::Simple(20) => return Envelope::new(false),
            Item::Simple(21) => return Envelope::new(true),
            Item::Simple(22) => return Envelope::null(),
            Item::Float(f) => return if ((*f as f32) as f64) == *f && rng.chance(1, 2) { Envelope::new(*f as f32) } else { Envelope::new(*f) },
            Item::Bytes(b) => return Envelope::new(dcbor::ByteString::from(b.clone())),
            Item::Tag(..) => {
                // the library's own value types, when the leaf is one of their encodings
                let cbor = item_to_cbor(item);
                let want = cbor.to_cbor_data();
                macro_rules! via {
                    ($t:ty) => {
                        if let Ok(v) = <$t>::try_from(cbor.clone()) {
                            // (only when the type's own encoding is this leaf: e.g. a date given as an integer)
                            if CBOR::from(v.clone()).to_cbor_data() == want {
                                return Envelope::new(v);
                            }
                        }
                    };
                }
                // (dates only within chrono's range: dcbor's own Date conversion panics outside it, finding D14)
                if let Item::Tag(1, inner) = item {
                    let t = match **inner {
                        Item::UInt(n) => n as f64,
                        Item::NInt(n) => -1.0 - n as f64,
                        Item::Float(f) => f,
                        _ => f64::NAN,
                    };
                    if t.is_finite() && t.abs() < 1.0e11 {
                        via!(dcbor::Date);
                    }
                }
                via!(Digest);
                via!(bc_components::ARID);
                via!(bc_components::UUID);
                via!(bc_components::URI);
                via!(bc_components::Salt);
            }
            _ => {}
        }
    }
    Envelope::new(item_to_cbor(item))
}

pub fn build(m: &M, route: Route, rng: &mut Rng) -> Envelope {
    if route == Route::Decode {
        return Envelope::try_from_cbor_data(m.bytes()).expect("library decodes the model's canonical bytes");
    }
    match m {
        M::Leaf(item) => build_leaf(item, rng),
        M::Known(n) => {
            if rng.chance(1, 2) {
                Envelope::new(KnownValue::new(*n))
            } else {
                Envelope::new(KnownValue::new_with_name(*n, format!("name{}", n)))
            }
        }
        M::Assertion(p, o) => {
            let p = build(p, route, rng);
            let o = build(o, route, rng);
            Envelope::new_assertion(p, o)
        }
        M::Wrapped(x) => {
            let inner = build(x, route, rng);
            if route == Route::Detour && rng.chance(1, 2) {
                inner.wrap_envelope().wrap_envelope().unwrap_envelope().unwrap()
            } else {
                inner.wrap_envelope()
            }
        }
        M::Node(s, asr) => {
            let subject = build(s, route, rng);
            let mut order: Vec<usize> = (0..asr.len()).collect();
            match route {
                Route::Plain => {
                    let mut e = subject;
                    for i in order {
                        e = add_one(&e, &asr[i], route, rng, false);
                    }
                    e
                }
                Route::Shuffled => {
                    rng.shuffle(&mut order);
                    // duplicates
                    let extra = rng.below(3);
                    for _ in 0..extra {
                        let k = order[rng.below(order.len())];
                        let pos = rng.below(order.len() + 1);
                        order.insert(pos, k);
                    }
                    if rng.chance(1, 3) {
                        let envs: Vec<Envelope> = order.iter().map(|&i| build(&asr[i], route, rng)).collect();
                        if rng.chance(1, 2) {
                            subject.add_assertion_envelopes(&envs).unwrap()
                        } else {
                            subject.add_assertions(&envs)
                        }
                    } else {
                        let mut e = subject;
                        for i in order {
                            e = add_one(&e, &asr[i], route, rng, true);
                        }
                        e
                    }
                }
                Route::ReplaceSubject => {
                    if matches!(**s, M::Node(..)) {
                        // replace_subject would fold a node subject; not this route's business
                        let mut e = subject;
                        for i in order {
                            e = add_one(&e, &asr[i], Route::Plain, rng, false);
                        }
                        return e;
                    }
                    rng.shuffle(&mut order);
                    let mut e = Envelope::new("dummy-subject");
                    for i in order {
                        e = add_one(&e, &asr[i], route, rng, false);
                    }
                    e.replace_subject(subject)
                }
                Route::Detour => {
                    rng.shuffle(&mut order);
                    // one assertion arrives late: a stand-in holds its place and is replaced at the end
                    let late: Option<usize> = if order.len() >= 2 && rng.chance(1, 2) { Some(order[rng.below(order.len())]) } else { None };
                    let stand_in = Envelope::new_assertion("stand-in", rng.next_u64());
                    let mut e = subject;
                    if let Some(l) = late {
                        order.retain(|&i| i != l);
                        // (the model may list the late assertion more than once; all copies are the same)
                        e = e.add_assertion_envelope(stand_in.clone()).unwrap();
                    }
                    for (k, i) in order.iter().enumerate() {
                        if k == 0 || rng.chance(1, 3) {
                            let tmp = Envelope::new_assertion("detour", k as u64);
                            let with = e.add_assertion_envelope(tmp.clone()).unwrap();
                            e = with.remove_assertion(tmp);
                        }
                        e = add_one(&e, &asr[*i], route, rng, false);
                        if rng.chance(1, 4) {
                            // replace an assertion by itself
                            let a = build(&asr[*i], Route::Plain, rng);
                            e = e.replace_assertion(a.clone(), a).unwrap();
                        }
                    }
                    if let Some(l) = late {
                        let real = build(&asr[l], Route::Plain, rng);
                        e = e.replace_assertion(stand_in, real).unwrap();
                    }
                    e
                }
                Route::Decode => unreachable!(),
            }
        }
    }
}

fn add_one(e: &Envelope, a: &M, route: Route, rng: &mut Rng, prefer_envelope: bool) -> Envelope {
    if let M::Assertion(p, o) = a {
        if !prefer_envelope && rng.chance(1, 2) {
            let p = build(p, route, rng);
            let o = build(o, route, rng);
            return match rng.below(3) {
                0 => e.add_assertion(p, o),
                1 => e.add_assertion_salted(p, o, false),
                _ => e.add_optional_assertion(p, Some(o)),
            };
        }
    }
    let ae = build(a, route, rng);
    match rng.below(3) {
        0 => e.add_assertion_envelope(ae).unwrap(),
        1 => e.add_assertion_envelope_salted(ae, false).unwrap(),
        _ => e.add_optional_assertion_envelope(Some(ae)).unwrap(),
    }
}

// ---------------------------------------------------------------------------------------------
// Obscuration helpers
// ---------------------------------------------------------------------------------------------

#[derive(Clone, Copy, Debug, PartialEq, Eq)]
pub enum Act {
    Elide,
    Encrypt,
    Compress,
}

pub const ACTS: [Act; 3] = [Act::Elide, Act::Encrypt, Act::Compress];

pub fn action(act: Act, key: &SymmetricKey) -> ObscureAction {
    match act {
        Act::Elide => ObscureAction::Elide,
        Act::Encrypt => ObscureAction::Encrypt(key.clone()),
        Act::Compress => ObscureAction::Compress,
    }
}

pub fn digest_set(ds: &[D32]) -> HashSet<Digest> {
    ds.iter().map(|d| Digest::from_data(*d)).collect()
}

/// Apply up to `rounds` random obscurations (removing mode, random action) to positions of `e`.
/// Compress is never aimed at an element that is already elided/encrypted (documented D5 panic
/// site; C16 owns that).
pub fn obscure_random(e: &Envelope, rng: &mut Rng, rounds: usize, key: &SymmetricKey) -> Envelope {
    let mut cur = e.clone();
    for _ in 0..rounds {
        let t = crate::pos::tree_of(&cur);
        let flat = t.flatten();
        if flat.len() < 2 {
            break;
        }
        let (_, target) = &flat[rng.range(1, flat.len() - 1)];
        let act = *rng.pick(&ACTS);
        if target.kind.is_obscured() && act != Act::Elide {
            continue;
        }
        if act == Act::Compress {
            // the same digest may also occur at an already elided/encrypted position
            let clash = flat.iter().any(|(_, x)| x.digest == target.digest && matches!(x.kind, Kind::Elided | Kind::Encrypted));
            if clash {
                continue;
            }
        }
        let set = digest_set(&[target.digest]);
        cur = cur.elide_removing_set_with_action(&set, &action(act, key));
    }
    cur
}

/// An envelope holding an assertion that is decorated twice WITHOUT wrapping -- a node whose subject is a node
/// whose subject is the assertion -- with the bare assertion present (`core = None`) or obscured by `core`.
/// Built the two ways the public API allows: by decoding, and by obscure -> add_assertion -> un-obscure.
/// Returns (envelope, the twice-decorated assertion element).
pub fn twice_decorated(rng: &mut Rng, core: Option<Act>, key: &SymmetricKey) -> (Envelope, Envelope) {
    let n = rng.below(1000) as u64;
    let bare = M::Assertion(Box::new(M::Leaf(Item::Text("knows".into()))), Box::new(M::Leaf(Item::Text(format!("Bob-{}", n)))));
    let once = M::Node(Box::new(bare.clone()), vec![M::Assertion(Box::new(M::Known(rng.below(20) as u64)), Box::new(M::Leaf(Item::UInt(n))))]);
    let twice = M::Node(Box::new(once.clone()), vec![M::Assertion(Box::new(M::Leaf(Item::Text("note".into()))), Box::new(M::Leaf(Item::UInt(n + 1))))]);
    let element = if rng.chance(1, 2) {
        Envelope::try_from_cbor_data(twice.bytes()).expect("twice decorated assertion decodes")
    } else {
        // compress the once-decorated assertion, decorate the placeholder, uncompress the subject again
        let once_e = build(&once, Route::Plain, rng);
        once_e.compress().unwrap().add_assertion("note", n + 1).uncompress_subject().unwrap()
    };
    let element = match core {
        None => element,
        Some(act) => {
            let d = bare.tree().digest;
            element.elide_removing_set_with_action(&digest_set(&[d]), &action(act, key))
        }
    };
    let holder = Envelope::new(format!("holder-{}", n)).add_assertion("plain", n);
    let e = holder.add_assertion_envelope(element.clone()).expect("a twice decorated assertion is a valid assertion element");
    (e, element)
}

/// an elided placeholder carrying an arbitrary (foreign) digest, obtained the only public way: by decoding
pub fn elided_with_digest(d: &D32) -> Envelope {
    let mut b = vec![0xd8, 0xc8, 0x58, 0x20];
    b.extend_from_slice(d);
    Envelope::try_from_cbor_data(b).expect("an elided element decodes")
}

pub fn hexs(b: &[u8]) -> String {
    hex::encode(b)
}

pub fn env_hex(e: &Envelope) -> String {
    hex::encode(e.tagged_cbor().to_cbor_data())
}

pub fn root_digest(e: &Envelope) -> D32 {
    *e.digest().data()
}

/// The elision entry points are twelve spellings of one function: (set | array | target) x
/// (removing | revealing | flag) x (with action | plain elide). Dispatch to a random equivalent one.
/// `targets` must be non-empty for the array/target forms (a single target for the target form).
pub fn elide_via_any_entry_point(e: &Envelope, targets: &[D32], revealing: bool, act: Act, key: &SymmetricKey, rng: &mut Rng) -> Envelope {
    let set = digest_set(targets);
    let ds: Vec<Digest> = targets.iter().map(|d| Digest::from_data(*d)).collect();
    let refs: Vec<&dyn DigestProvider> = ds.iter().map(|d| d as &dyn DigestProvider).collect();
    let a = action(act, key);
    let distinct = set.len();
    // forms usable for this target list
    let mut forms = vec![0u8, 1, 2];
    if !targets.is_empty() {
        forms.extend_from_slice(&[3, 4, 5]);
    }
    if distinct == 1 && !targets.is_empty() {
        forms.extend_from_slice(&[6, 7, 8]);
    }
    let form = *rng.pick(&forms);
    let plain = act == Act::Elide && rng.chance(1, 2);
    match (form, plain, revealing) {
        (0, false, _) => e.elide_set_with_action(&set, revealing, &a),
        (0, true, _) => e.elide_set(&set, revealing),
        (1, false, false) | (2, false, false) => e.elide_removing_set_with_action(&set, &a),
        (1, false, true) | (2, false, true) => e.elide_revealing_set_with_action(&set, &a),
        (1, true, false) | (2, true, false) => e.elide_removing_set(&set),
        (1, true, true) | (2, true, true) => e.elide_revealing_set(&set),
        (3, false, _) => e.elide_array_with_action(&refs, revealing, &a),
        (3, true, _) => e.elide_array(&refs, revealing),
        (4, false, false) | (5, false, false) => e.elide_removing_array_with_action(&refs, &a),
        (4, false, true) | (5, false, true) => e.elide_revealing_array_with_action(&refs, &a),
        (4, true, false) | (5, true, false) => e.elide_removing_array(&refs),
        (4, true, true) | (5, true, true) => e.elide_revealing_array(&refs),
        (6, false, _) => e.elide_target_with_action(&ds[0], revealing, &a),
        (6, true, _) => e.elide_target(&ds[0], revealing),
        (_, false, false) => e.elide_removing_target_with_action(&ds[0], &a),
        (_, false, true) => e.elide_revealing_target_with_action(&ds[0], &a),
        (_, true, false) => e.elide_removing_target(&ds[0]),
        (_, true, true) => e.elide_revealing_target(&ds[0]),
    }
}

// ---------------------------------------------------------------------------------------------
// Adversarial models (see adv.rs): drawn now and then instead of a random model
// ---------------------------------------------------------------------------------------------

fn serial(n: u64) -> M {
    M::Assertion(Box::new(M::Leaf(Item::Text("serial".into()))), Box::new(M::Leaf(Item::UInt(n))))
}

pub fn adversarial_models() -> &'static Vec<(String, M)> {
    static CELL: std::sync::OnceLock<Vec<(String, M)>> = std::sync::OnceLock::new();
    CELL.get_or_init(|| {
        let mut v: Vec<(String, M)> = Vec::new();
        // nodes holding assertions whose digests share their first 1..4 bytes (also together with others)
        for nb in 1..=4usize {
            let (a, b) = crate::adv::prefix_collision("serial", nb, (nb as u64) * 1_000_000);
            v.push((format!("digest-prefix-{}", nb), M::Node(Box::new(M::Leaf(Item::Text("item".into()))), vec![serial(a), serial(b)])));
            v.push((format!("digest-prefix-{}+others", nb), M::Node(Box::new(M::Leaf(Item::Text("item".into()))), vec![serial(b), serial(7), serial(a), serial(8), serial(9)])));
        }
        // an assertion whose digest shares 2 bytes with the subject's digest
        {
            let subj = M::Leaf(Item::Text("item".into()));
            let sd = subj.tree().digest;
            let n = crate::adv::prefix_match("serial", &sd, 2, 0);
            v.push(("assertion-digest-prefix-of-subject".into(), M::Node(Box::new(subj), vec![serial(n), serial(1)])));
        }
        // byte-string leaves whose whole encoding has a chosen CRC-32 (the checksum field of compress())
        for (i, crc) in crate::adv::SPECIAL_CRCS.iter().enumerate() {
            let content = crate::adv::bytes_leaf_with_crc(format!("crc-{:08x}-", crc).as_bytes(), *crc);
            v.push((format!("crc-{:08x}", crc), M::Leaf(Item::Bytes(content.clone()))));
            if i < 3 {
                // the same, long enough to be really deflated
                let mut tag = format!("crc-{:08x}-", crc).into_bytes();
                tag.extend(std::iter::repeat(b'z').take(300));
                v.push((format!("crc-{:08x}-long", crc), M::Leaf(Item::Bytes(crate::adv::bytes_leaf_with_crc(&tag, *crc)))));
            }
        }
        // two different leaves with equal encoded length AND equal CRC-32, as objects of one node
        {
            let a = crate::adv::bytes_leaf_with_crc(b"twin-A-", 0x1234_5678);
            let b = crate::adv::bytes_leaf_with_crc(b"twin-B-", 0x1234_5678);
            v.push((
                "equal-length-equal-crc-twins".into(),
                M::Node(Box::new(M::Leaf(Item::Text("twins".into()))), vec![M::Assertion(Box::new(M::Leaf(Item::UInt(1))), Box::new(M::Leaf(Item::Bytes(a)))), M::Assertion(Box::new(M::Leaf(Item::UInt(2))), Box::new(M::Leaf(Item::Bytes(b))))]),
            ));
        }
        // very wide nodes (array head 0x99 0x03e8.., more assertions than fit any small fixed table)
        for width in [1000usize, 1023, 1024, 1025] {
            let asr: Vec<M> = (0..width).map(|i| M::Assertion(Box::new(M::Leaf(Item::UInt(i as u64))), Box::new(M::Leaf(Item::Text(format!("v{}", i % 7)))))).collect();
            v.push((format!("wide-{}", width), M::Node(Box::new(M::Leaf(Item::Text("wide".into()))), asr)));
        }
        // deep chains (wrap / assertion levels)
        for depth in [129usize, 130, 200, 300] {
            let mut m = M::Leaf(Item::Text(format!("core-{}", depth)));
            for i in 0..depth {
                m = if i % 2 == 0 { M::Wrapped(Box::new(m)) } else { M::Node(Box::new(m), vec![M::Assertion(Box::new(M::Leaf(Item::Text("level".into()))), Box::new(M::Leaf(Item::UInt(i as u64))))]) };
            }
            v.push((format!("deep-chain-{}", depth), m));
        }
        v
    })
}

/// the model for one case: usually random, now and then one of the adversarial ones
pub fn model_for_case(rng: &mut Rng, cfg: GenCfg, case: u64) -> M {
    if rng.chance(1, 24) {
        let adv = adversarial_models();
        let (_, m) = &adv[rng.below(adv.len())];
        // deep chains only where the configuration allows big inputs
        if (m.tree().depth() > 64 || m.tree().count() > 600) && !cfg.big {
            return serial_node(rng);
        }
        return m.clone();
    }
    if rng.chance(1, 40) {
        // special numbers as known values and integers, several per envelope
        let sp = crate::adv::special_numbers();
        let k = rng.range(1, 4);
        let asr: Vec<M> = (0..k).map(|_| M::Assertion(Box::new(M::Known(*rng.pick(&sp))), Box::new(if rng.chance(1, 2) { M::Known(*rng.pick(&sp)) } else { M::Leaf(Item::UInt(*rng.pick(&sp))) }))).collect();
        return M::Node(Box::new(M::Known(*rng.pick(&sp))), asr);
    }
    let mut g = Gen::new(rng, cfg, case);
    g.top()
}

fn serial_node(rng: &mut Rng) -> M {
    let adv = adversarial_models();
    let (_, m) = &adv[rng.below(8)];
    m.clone()
}
