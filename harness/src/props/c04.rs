//! C04 — every envelope the library emits is canonical and well-formed (random operation histories).

use bc_components::{Digest, EncapsulationScheme, SignatureScheme, SymmetricKey};
use bc_envelope::prelude::*;

use super::common::*;
use crate::ctx::Ctx;
use crate::gen::{self, action, Act, Gen, GenCfg, Route};
use crate::json::J;
use crate::pos::tree_of;
use crate::rng::Rng;
use crate::spec::Kind;
use crate::trap;

fn small_part(rng: &mut Rng, case: u64) -> Envelope {
    let m = {
        let mut g = Gen::new(rng, GenCfg::small(), case);
        g.part(1)
    };
    gen::build(&m, Route::Plain, rng)
}

/// an envelope that is neither an assertion nor obscured (must never end up in an assertion slot)
fn nonassertion(rng: &mut Rng, case: u64) -> Envelope {
    match rng.below(5) {
        0 => Envelope::new(format!("not-an-assertion-{}", case)),
        1 => Envelope::new(KnownValue::new(case % 50)),
        2 => Envelope::new_assertion("p", case).wrap_envelope(),
        3 => Envelope::new("subject").add_assertion("has", "assertions"),
        _ => Envelope::new("x").wrap_envelope().add_assertion("k", 1),
    }
}

/// Wide nodes (C04-m11): a node of `width` elided assertions with forged digests — some sharing a long
/// digest prefix — receives further prefix twins through the builders and goes through the transformations
/// that re-assemble the assertion list; S1 judges the order after every step.  Widths straddle the sizes
/// at which a sort might change strategy (insertion-sort cut-offs, powers of two, 4096, 8192).
fn wide_node(ctx: &mut Ctx, case: u64, rng: &mut Rng, key: &SymmetricKey) {
    const WIDTHS: [usize; 14] = [3, 19, 21, 33, 63, 129, 255, 513, 1025, 2049, 4095, 4097, 4200, 8200];
    let width = if ctx.pick(true, false) { WIDTHS[(case / 700) as usize % WIDTHS.len()] } else { *rng.pick(&WIDTHS) };
    let share = *rng.pick(&[1usize, 2, 4, 7, 8, 9, 15, 16, 24, 31][..]);
    let forged = |prefix: u64, share: usize, fill: u8| -> [u8; 32] {
        // the first `share` bytes depend on `prefix` only, the rest on `fill`
        let mut d = [0u8; 32];
        let h = crate::rng::fnv(&format!("wide-{}-{}", case, prefix)).to_be_bytes();
        for i in 0..32 {
            d[i] = if i < share { h[i % 8] ^ (i / 8) as u8 } else { fill };
        }
        d
    };
    let mut order: Vec<usize> = (0..width).collect();
    rng.shuffle(&mut order);
    let res = trap::guard(|| {
        let mut outs: Vec<(&'static str, Envelope)> = Vec::new();
        let mut e = Envelope::new(format!("wide-{}", case));
        let batch: Vec<Envelope> = order.iter().map(|i| gen::elided_with_digest(&forged(*i as u64, 32, 0))).collect();
        e = e.add_assertion_envelopes(&batch).expect("elided elements are accepted as assertions");
        outs.push(("wide_built", e.clone()));
        // twins of a few members: same leading bytes, smaller or larger after them, in either order of arrival
        for t in 0..4 {
            let member = rng.below(width) as u64;
            let fills: [u8; 3] = if rng.chance(1, 2) { [0x80, 0x10, 0xf0] } else { [0x80, 0xf0, 0x10] };
            for f in fills {
                e = e.add_assertion_envelope(gen::elided_with_digest(&forged(member, share, f))).expect("elided twin accepted");
            }
            if t == 0 {
                outs.push(("wide_twin_added", e.clone()));
            }
        }
        outs.push(("wide_twins_added", e.clone()));
        let asr = e.assertions();
        outs.push(("wide_remove", e.remove_assertion(rng.pick(&asr).clone())));
        outs.push(("wide_replace_subject", e.replace_subject(Envelope::new("other"))));
        outs.push(("wide_add_plain", e.add_assertion("plain", case)));
        outs.push(("wide_elide_subject", e.elide_removing_target(&e.subject())));
        if let Ok(x) = e.encrypt_subject(key) {
            if let Ok(y) = x.decrypt_subject(key) {
                outs.push(("wide_decrypt_subject", y));
            }
            outs.push(("wide_encrypt_subject", x));
        }
        if let Ok(x) = e.compress_subject() {
            if let Ok(y) = x.uncompress_subject() {
                outs.push(("wide_uncompress_subject", y));
            }
        }
        if let Ok(x) = Envelope::try_from_cbor_data(env_bytes(&e)) {
            outs.push(("wide_decoded", x));
        }
        if let Ok(x) = e.compress().and_then(|c| c.uncompress()) {
            outs.push(("wide_uncompressed", x));
        }
        outs
    });
    let rp = J::obj(vec![("wide_width", J::i(width as u64)), ("shared_prefix_bytes", J::i(share as u64))]);
    match res {
        Err(p) => ctx.violation(&format!("panic/wide_node/{}", p.signature()), &format!("{:?}", p), rp),
        Ok(outs) => {
            ctx.count(&format!("wide_width_{}", width));
            ctx.count(&format!("wide_shared_prefix_{}", share));
            for (op, x) in outs {
                ctx.eval();
                ctx.count(&format!("op_{}", op));
                if check_spec(ctx, &x, &format!("after {} (width {}, {} shared bytes)", op, width, share)).is_none() {
                    ctx.violation(&format!("malformed-after/{}", op), "see s1/* violation of the same case", rp.clone());
                }
            }
        }
    }
}

pub const OPS: [&str; 39] = [
    "replace_subject_by_own_placeholder", "decode_mutant", "uncompress_forged", "adopt_foreign_encrypted",
    "attachments_container_reapply", "attachments_container_extend", "add_nonassertion_envelope", "add_nonassertion_salted", "add_nonassertion_optional", "add_nonassertion_batch", "replace_with_nonassertion", "add_nonassertion_if", "add", "add_duplicate", "add_salted", "add_envelope_obscured", "remove_existing", "remove_absent", "remove_all", "replace_assertion", "replace_subject_leaf",
    "replace_subject_node", "replace_subject_obscured", "wrap", "unwrap", "elide_some", "elide_revealing", "compress", "compress_subject", "uncompress", "uncompress_subject",
    "encrypt_subject", "decrypt_subject", "add_salt", "add_signature", "add_recipient", "add_type", "add_attachment", "encode_decode",
];

pub fn run(ctx: &mut Ctx) {
    let total = ctx.n(80_000, 4_000_000);
    let max_len = ctx.pick(12usize, 40usize);
    let wide_every = ctx.pick(700u64, 2_000u64);
    let (sk, _pk) = SignatureScheme::Ed25519.keypair();
    let (_rsk, rpk) = EncapsulationScheme::X25519.keypair();
    for case in ctx.cases(total) {
        ctx.begin_case(case);
        let mut rng = ctx.rng(case);
        let (_m, start) = universe(&mut rng, GenCfg::small(), case);
        let key: SymmetricKey = fresh_key(&mut rng);
        if case % wide_every == 3 {
            wide_node(ctx, case, &mut rng, &key);
        }
        let mut cur = start.clone();
        let len = rng.range(3, max_len);
        let mut hist: Vec<String> = Vec::new();
        let mut hist_hash: u64 = 0;
        for step in 0..len {
            let op = *rng.pick(&OPS);
            let before = cur.clone();
            let before_bytes = env_bytes(&before);
            let mut r2 = rng.fork();
            let res: Result<Option<Envelope>, trap::PanicInfo> = trap::guard(|| -> Option<Envelope> {
                let rng = &mut r2;
                let asr = cur.assertions();
                match op {
                    "add" => Some(cur.add_assertion(small_part(rng, case), small_part(rng, case))),
                    "add_duplicate" => {
                        if asr.is_empty() {
                            return None;
                        }
                        let a = rng.pick(&asr).clone();
                        Some(cur.add_assertion_envelope(a).ok()?)
                    }
                    // offering something that is not an assertion must fail (or at least never produce a
                    // node with a non-assertion element - judged by S1 on whatever comes back)
                    // the Attachments container: read the attachments, put them (plus one more) back
                    "attachments_container_reapply" => {
                        let c = bc_envelope::Attachments::try_from_envelope(&cur).ok()?;
                        if c.is_empty() {
                            return None;
                        }
                        Some(c.add_to_envelope(cur.clone()))
                    }
                    "attachments_container_extend" => {
                        let mut c = bc_envelope::Attachments::try_from_envelope(&cur).ok()?;
                        c.add(small_part(rng, case), "com.example.container", None::<&str>);
                        Some(c.add_to_envelope(cur.clone()))
                    }
                    "add_nonassertion_envelope" => cur.add_assertion_envelope(nonassertion(rng, case)).ok(),
                    "add_nonassertion_salted" => cur.add_assertion_envelope_salted(nonassertion(rng, case), rng.chance(1, 2)).ok(),
                    "add_nonassertion_optional" => {
                        if rng.chance(1, 2) {
                            cur.add_optional_assertion_envelope(Some(nonassertion(rng, case))).ok()
                        } else {
                            cur.add_optional_assertion_envelope_salted(Some(nonassertion(rng, case)), rng.chance(1, 2)).ok()
                        }
                    }
                    "add_nonassertion_batch" => {
                        let mut batch: Vec<Envelope> = asr.iter().take(2).cloned().collect();
                        batch.push(nonassertion(rng, case));
                        cur.add_assertion_envelopes(&batch).ok()
                    }
                    "replace_with_nonassertion" => {
                        if asr.is_empty() {
                            return None;
                        }
                        cur.replace_assertion(rng.pick(&asr).clone(), nonassertion(rng, case)).ok()
                    }
                    "add_nonassertion_if" => cur.add_assertion_envelope_if(true, nonassertion(rng, case)).ok(),
                    "add_salted" => Some(cur.add_assertion_salted(small_part(rng, case), small_part(rng, case), true)),
                    "add_envelope_obscured" => {
                        let a = Envelope::new_assertion(small_part(rng, case), small_part(rng, case));
                        let a = match rng.below(3) {
                            0 => a.elide(),
                            1 => a.compress().ok()?,
                            _ => a.encrypt_subject(&key).ok()?,
                        };
                        Some(cur.add_assertion_envelope(a).ok()?)
                    }
                    "remove_existing" => {
                        if asr.is_empty() {
                            return None;
                        }
                        Some(cur.remove_assertion(rng.pick(&asr).clone()))
                    }
                    "remove_absent" => Some(cur.remove_assertion(Envelope::new_assertion("absent", step as u64))),
                    "remove_all" => {
                        let mut e = cur.clone();
                        let mut order = asr.clone();
                        rng.shuffle(&mut order);
                        for a in order {
                            e = e.remove_assertion(a);
                        }
                        Some(e)
                    }
                    "replace_assertion" => {
                        if asr.is_empty() {
                            return None;
                        }
                        let a = rng.pick(&asr).clone();
                        let b = if rng.chance(1, 3) { rng.pick(&asr).clone() } else { Envelope::new_assertion(small_part(rng, case), small_part(rng, case)) };
                        Some(cur.replace_assertion(a, b).ok()?)
                    }
                    "replace_subject_leaf" => Some(cur.replace_subject(small_part(rng, case))),
                    "replace_subject_node" => {
                        let s = small_part(rng, case).add_assertion(small_part(rng, case), small_part(rng, case));
                        // sometimes share an assertion with the receiver so the fold meets a duplicate
                        let s = if !asr.is_empty() && rng.chance(1, 2) { s.add_assertion_envelope(rng.pick(&asr).clone()).ok()? } else { s };
                        Some(cur.replace_subject(s))
                    }
                    "replace_subject_obscured" => {
                        let s = small_part(rng, case);
                        let s = match rng.below(3) {
                            0 => s.elide(),
                            1 => s.compress().ok()?,
                            _ => s.encrypt_subject(&key).ok()?,
                        };
                        Some(cur.replace_subject(s))
                    }
                    // the new subject is digest-equal to the WHOLE receiver (its own elided / compressed / encrypted form)
                    "replace_subject_by_own_placeholder" => Some(cur.replace_subject(match rng.below(3) {
                        0 => cur.elide(),
                        1 => cur.compress().unwrap_or_else(|_| cur.elide()),
                        _ => cur.wrap_envelope().encrypt_subject(&key).map(|x| x).unwrap_or_else(|_| cur.elide()),
                    })),
                    "wrap" => Some(cur.wrap_envelope()),
                    "unwrap" => cur.unwrap_envelope().ok(),
                    "elide_some" | "elide_revealing" => {
                        let t = tree_of(&cur);
                        let all = t.all_digests();
                        let k = rng.range(1, 3);
                        let ds: Vec<[u8; 32]> = (0..k).map(|_| *rng.pick(&all)).collect();
                        let has_hidden = t.flatten().iter().any(|(_, n)| matches!(n.kind, Kind::Elided | Kind::Encrypted));
                        let mut act = *rng.pick(&gen::ACTS);
                        if act == Act::Compress && has_hidden {
                            act = Act::Elide;
                        }
                        Some(cur.elide_set_with_action(&gen::digest_set(&ds), op == "elide_revealing", &action(act, &key)))
                    }
                    "compress" => cur.compress().ok(),
                    "compress_subject" => cur.compress_subject().ok(),
                    "uncompress" => cur.uncompress().ok(),
                    "uncompress_subject" => cur.uncompress_subject().ok(),
                    "encrypt_subject" => cur.encrypt_subject(&key).ok(),
                    "decrypt_subject" => cur.decrypt_subject(&key).ok(),
                    "add_salt" => Some(cur.add_salt()),
                    "add_signature" => Some(cur.add_signature(&sk)),
                    "add_recipient" => Some(cur.add_recipient(&rpk, &key)),
                    "add_type" => Some(cur.add_type(small_part(rng, case))),
                    "add_attachment" => Some(cur.add_attachment(small_part(rng, case), "com.example", if rng.chance(1, 2) { Some("https://example.com/v1") } else { None })),
                    "encode_decode" => Envelope::try_from_cbor_data(env_bytes(&cur)).ok(),
                    // whatever the decoder lets through is "emitted" too: a structurally mutated encoding of the
                    // current envelope (Err is the expected answer; an Ok result is judged like any other)
                    "decode_mutant" | "uncompress_forged" => {
                        let item = crate::spec::parse_item(&env_bytes(&cur)).ok()?;
                        let (m, _) = super::c06::structural_for_c16(&item, rng);
                        let b = crate::spec::encode(&m);
                        let decoded = Envelope::try_from_cbor_data(b.clone()).ok()?;
                        let _ = bc_components::DigestProvider::digest(&decoded);
                        if op == "decode_mutant" {
                            Some(decoded)
                        } else {
                            // the same bytes as the payload of a compressed element declared under the digest
                            // the decoder computed for them
                            let c = bc_components::Compressed::from_uncompressed_data(b, Some(bc_components::DigestProvider::digest(&decoded).into_owned()));
                            Envelope::try_from(c).ok()?.uncompress().ok()
                        }
                    }
                    // an encrypted message that does not declare a digest (no additional data, or additional data
                    // that is something else) is not an envelope element
                    "adopt_foreign_encrypted" => {
                        let aad: Option<Vec<u8>> = match rng.below(5) {
                            0 => None,
                            1 => Some(rng.bytes(32)),
                            2 => Some(crate::spec::encode(&crate::spec::Item::Bytes(rng.bytes(32)))),
                            3 => Some(crate::spec::encode(&crate::spec::Item::Text("application data".into()))),
                            _ => Some(crate::spec::encode(&crate::spec::Item::Tag(40001, Box::new(crate::spec::Item::Bytes(rng.bytes(33)))))),
                        };
                        let msg = key.encrypt(env_bytes(&cur), aad, None::<bc_components::Nonce>);
                        let adopted = Envelope::try_from(msg).ok()?;
                        let _ = bc_components::DigestProvider::digest(&adopted);
                        Some(adopted)
                    }
                    _ => None,
                }
            });
            let replay = |hist: &Vec<String>| J::obj(vec![("start_hex", jhex(&start)), ("history", J::Arr(hist.iter().map(J::s).collect())), ("failing_op", J::s(op)), ("before_hex", J::s(hex::encode(&before_bytes)))]);
            match res {
                Err(p) => {
                    ctx.violation(&format!("panic/{}/{}", op, p.signature()), &format!("{:?}", p), replay(&hist));
                    break;
                }
                Ok(None) => {
                    if op.contains("nonassertion") {
                        ctx.eval();
                        ctx.count("invalid_argument_ops_refused");
                    } else if matches!(op, "decode_mutant" | "uncompress_forged" | "adopt_foreign_encrypted") {
                        ctx.eval();
                        ctx.count("hostile_material_refused");
                    } else {
                        ctx.count("op_not_applicable");
                    }
                    continue;
                }
                Ok(Some(next)) => {
                    hist.push(op.to_string());
                    hist_hash = hist_hash.wrapping_mul(31).wrapping_add(crate::rng::fnv(op));
                    ctx.eval();
                    ctx.count(&format!("op_{}", op));
                    // the receiver is untouched
                    if env_bytes(&before) != before_bytes {
                        ctx.violation(&format!("receiver-mutated/{}", op), "operation changed its receiver", replay(&hist));
                    }
                    // S1: grammar + recomputed digests after every step
                    let t = check_spec(ctx, &next, &format!("after {}", op));
                    if t.is_none() {
                        // violation already recorded; attach the history
                        ctx.violation(&format!("malformed-after/{}", op), "see s1/* violation of the same case", replay(&hist));
                        break;
                    }
                    // the three history laws named by the property
                    match op {
                        "remove_all" => {
                            ctx.count("law_remove_last");
                            if !next.is_identical_to(&before.subject()) {
                                ctx.violation("law/remove-last-not-bare-subject", "removing every assertion did not yield the bare subject", replay(&hist));
                            }
                        }
                        "add_duplicate" => {
                            ctx.count("law_add_existing");
                            if env_bytes(&next) != before_bytes {
                                ctx.violation("law/add-existing-changed", "adding an assertion already present changed the envelope", replay(&hist));
                            }
                        }
                        "replace_subject_leaf" | "replace_subject_obscured" => {
                            ctx.count("law_resort_after_replace_subject");
                            // every assertion of the receiver is still present (a node given as the new
                            // subject contributes its own as well); the order itself is judged by S1
                            let a: Vec<Digest> = before.assertions().iter().map(|x| bc_components::DigestProvider::digest(x).into_owned()).collect();
                            let b: Vec<Digest> = next.assertions().iter().map(|x| bc_components::DigestProvider::digest(x).into_owned()).collect();
                            if !a.iter().all(|d| b.contains(d)) {
                                ctx.violation("law/replace-subject-assertions", "an assertion was lost by replace_subject", replay(&hist));
                            }
                        }
                        _ => {}
                    }
                    cur = next;
                }
            }
        }
        if hist.len() >= 2 {
            ctx.nontrivial(hist_hash);
        }
        ctx.count(&format!("history_len_{}", (hist.len() / 5) * 5));
        ctx.sample(|| J::obj(vec![("case", J::i(case)), ("start", J::s(brief(&tree_of(&start)))), ("history", J::Arr(hist.iter().map(J::s).collect())), ("final", J::s(brief(&tree_of(&cur))))]));
    }
}
