//! C01 — digest tree of every envelope matches the specification.

use bc_components::SymmetricKey;
use bc_envelope::prelude::*;

use super::common::*;
use crate::ctx::Ctx;
use crate::gen::{self, build, GenCfg, Route, API_ROUTES};
use crate::json::J;
use crate::pos::{self, tree_of};
use crate::spec;
use crate::trap;

fn spec_vectors(ctx: &mut Ctx) {
    // draft-mcnally-envelope-09 §4 test vectors, built through the public API
    let alice_knows_bob = Envelope::new("Alice").add_assertion("knows", "Bob");
    let vectors: Vec<(&str, Envelope, &str)> = vec![
        ("leaf Hello.", Envelope::new("Hello."), "8cc96cdb771176e835114a0f8936690b41cfed0df22d014eedd64edaea945d59"),
        ("leaf Alice", Envelope::new("Alice"), "13941b487c1ddebce827b6ec3f46d982938acdc7e3b6a140db36062d9519dd2f"),
        ("leaf knows", Envelope::new("knows"), "db7dd21c5169b4848d2a1bcb0a651c9617cdd90bae29156baaefbb2a8abef5ba"),
        ("leaf Bob", Envelope::new("Bob"), "13b741949c37b8e09cc3daa3194c58e4fd6b2f14d4b1d0f035a46d6d5a1d3f11"),
        ("assertion knows:Bob", Envelope::new_assertion("knows", "Bob"), "78d666eb8f4c0977a0425ab6aa21ea16934a6bc97c6f0c3abaefac951c1714a2"),
        ("node Alice[knows:Bob]", alice_knows_bob.clone(), "8955db5e016affb133df56c11fe6c5c82fa3036263d651286d134c7e56c0e9f2"),
        ("wrapped", alice_knows_bob.wrap_envelope(), ""),
    ];
    for (name, e, want) in vectors {
        ctx.eval();
        ctx.count("spec_vectors");
        let got = hex::encode(gen::root_digest(&e));
        if !want.is_empty() && got != want {
            ctx.violation("spec-vector/digest", &format!("{}: digest {} expected {}", name, got, want), jhex(&e));
        }
        check_spec(ctx, &e, name);
    }
}

pub fn run(ctx: &mut Ctx) {
    if ctx.shard == 0 {
        spec_vectors(ctx);
    }
    let total = ctx.n(60_000, 250_000);
    let key = SymmetricKey::new();
    let sweep = special_numbers_len();
    for case in ctx.cases(total + sweep) {
        ctx.begin_case(case);
        let mut rng = ctx.rng(case);
        let mut cfg = if ctx.tier == crate::ctx::Tier::Quick { GenCfg::medium() } else { GenCfg::large() };
        cfg.node_subject = case % 4 == 0;
        if case % 3 == 0 {
            cfg = GenCfg { node_subject: cfg.node_subject, ..GenCfg::small() };
        }
        let m = if case >= total {
            ctx.count("special_number_sweep");
            special_number_model((case - total) as usize)
        } else {
            gen::model_for_case(&mut rng, cfg, case)
        };
        let expect = m.tree();
        let expect_bytes = m.bytes();
        let sig = expect.shape_hash();
        if expect.count() > 1 {
            ctx.nontrivial(sig);
        }
        kind_hist(ctx, &expect, "");
        ctx.count(&format!("depth_{}", expect.depth().min(12)));
        ctx.sample(|| J::obj(vec![("case", J::i(case)), ("model", J::s(brief(&expect))), ("bytes_hex", J::s(hex::encode(&expect_bytes[..expect_bytes.len().min(96)])))]));

        let mut routes: Vec<Route> = vec![Route::Decode];
        if !m.has_node_subject_node() {
            routes.extend_from_slice(&API_ROUTES);
        } else {
            ctx.count("node_subject_models");
        }
        let mut built: Option<Envelope> = None;
        for route in routes {
            let mut r2 = rng.fork();
            let res = trap::guard(|| build(&m, route, &mut r2));
            ctx.eval();
            ctx.count(&format!("route_{:?}", route));
            let e = match res {
                Ok(e) => e,
                Err(p) => {
                    ctx.violation(&format!("route-{:?}/panic/{}", route, p.signature()), &format!("building panicked: {:?}", p), J::obj(vec![("model_bytes", J::s(hex::encode(&expect_bytes)))]));
                    continue;
                }
            };
            let lib = tree_of(&e);
            if let Some(d) = pos::diff(&lib, &expect) {
                ctx.violation(
                    &format!("route-{:?}/tree/{}", route, diff_class(&d)),
                    &format!("library tree vs model: {}", d),
                    J::obj(vec![("model_bytes", J::s(hex::encode(&expect_bytes))), ("built_hex", jhex(&e))]),
                );
            }
            let bytes = env_bytes(&e);
            if bytes != expect_bytes {
                ctx.violation(
                    &format!("route-{:?}/bytes", route),
                    "serialisation differs from the model's canonical bytes",
                    J::obj(vec![("model_bytes", J::s(hex::encode(&expect_bytes))), ("built_hex", J::s(hex::encode(&bytes)))]),
                );
            }
            check_spec(ctx, &e, &format!("route {:?}", route));
            built = Some(e);
        }
        let Some(e) = built else { continue };

        // obscured variants: declared digests must be the original digests (S1 on the result)
        let rounds = rng.range(1, 4);
        let ob = gen::obscure_random(&e, &mut rng, rounds, &key);
        ctx.eval();
        if gen::root_digest(&ob) != expect.digest {
            ctx.violation("obscured/root-digest", "root digest changed by obscuring", J::obj(vec![("orig", jhex(&e)), ("obscured", jhex(&ob))]));
        }
        if let Some(t) = check_spec(ctx, &ob, "obscured") {
            if t.has_obscured() {
                ctx.count("obscured_variants_checked");
                ctx.nontrivial(t.shape_hash());
            }
        }
        // decode of the obscured variant is one more route to the same digests
        if let Ok(back) = Envelope::try_from_cbor_data(env_bytes(&ob)) {
            ctx.eval();
            if let Some(d) = pos::diff(&tree_of(&back), &tree_of(&ob)) {
                ctx.violation(&format!("obscured-decode/tree/{}", diff_class(&d)), &d, J::obj(vec![("obscured", jhex(&ob))]));
            }
        }
        // decrypt / uncompress back: one more history leading to the same envelope
        if let Ok(c) = e.compress() {
            ctx.eval();
            check_spec(ctx, &c, "compress");
            match c.uncompress() {
                Ok(u) => {
                    if let Some(d) = pos::diff(&tree_of(&u), &expect) {
                        ctx.violation(&format!("uncompress/tree/{}", diff_class(&d)), &d, jhex(&e));
                    }
                }
                Err(err) => ctx.violation("uncompress/err", &format!("{}", err), jhex(&e)),
            }
        }
        let w = e.wrap_envelope();
        if let Ok(x) = w.encrypt_subject(&key) {
            ctx.eval();
            check_spec(ctx, &x, "encrypt");
            match x.decrypt_subject(&key).and_then(|d| d.unwrap_envelope()) {
                Ok(u) => {
                    if let Some(d) = pos::diff(&tree_of(&u), &expect) {
                        ctx.violation(&format!("decrypt/tree/{}", diff_class(&d)), &d, jhex(&e));
                    }
                }
                Err(err) => ctx.violation("decrypt/err", &format!("{}", err), jhex(&e)),
            }
        }
        let _ = spec::TAG_LEAF;
    }
}
