//! C08 — symmetric encryption round-trips, keeps digests and is bound to them (fault enumeration).

use bc_components::{AuthenticationTag, Digest, EncryptedMessage, Nonce, SymmetricKey};
use bc_envelope::base::envelope::EnvelopeCase;
use bc_envelope::prelude::*;

use super::common::*;
use crate::ctx::Ctx;
use crate::gen::{self, action, Act};
use crate::json::J;
use crate::pos::{self, tree_of};
use crate::spec::Kind;
use crate::trap;

fn msg_of(e: &Envelope) -> Option<EncryptedMessage> {
    match e.subject().case() {
        EnvelopeCase::Encrypted(m) => Some(m.clone()),
        _ => None,
    }
}

/// Install a (possibly forged) encrypted message as the subject of `shell` (which has an
/// encrypted subject) or as a bare envelope. Err = rejected at construction.
fn install(shell: &Envelope, m: EncryptedMessage) -> Result<Envelope, String> {
    let subj = Envelope::try_from(m).map_err(|e| e.to_string())?;
    if shell.is_node() {
        Ok(shell.replace_subject(subj))
    } else {
        Ok(subj)
    }
}

fn expect_reject(ctx: &mut Ctx, forged: Result<Envelope, String>, key: &SymmetricKey, class: &str, orig: &Envelope, detail: impl Fn() -> String) {
    ctx.eval();
    ctx.count(&format!("fault_{}", class));
    match forged {
        Err(_) => ctx.count("fault_rejected_at_construction"),
        Ok(f) => match trap::guard(|| f.decrypt_subject(key)) {
            Ok(Err(_)) => ctx.count("fault_rejected_at_decrypt"),
            Ok(Ok(out)) => {
                ctx.violation(
                    &format!("tamper-accepted/{}", class),
                    &format!("decrypt_subject returned Ok for a tampered/mis-declared message: {}", detail()),
                    J::obj(vec![("original_encrypted", jhex(orig)), ("forged", jhex(&f)), ("key", J::s(hex::encode(key.data()))), ("output", jhex(&out))]),
                );
            }
            Err(p) => ctx.violation(&format!("tamper-panic/{}/{}", class, p.signature()), &format!("{:?}", p), J::obj(vec![("forged", jhex(&f)), ("key", J::s(hex::encode(key.data())))])),
        },
    }
}

fn flip(bytes: &[u8], bit: usize) -> Vec<u8> {
    let mut v = bytes.to_vec();
    v[bit / 8] ^= 1 << (bit % 8);
    v
}

fn tamper_all(ctx: &mut Ctx, enc: &Envelope, key: &SymmetricKey, rng: &mut crate::rng::Rng, exhaustive: bool) {
    let Some(m) = msg_of(enc) else { return };
    let ct = m.ciphertext().clone();
    let nonce = m.nonce().data().to_vec();
    let tag = m.authentication_tag().data().to_vec();
    let aad = m.aad().clone();
    let mk = |ct: &[u8], aad: &[u8], nonce: &[u8], tag: &[u8]| -> Result<EncryptedMessage, String> {
        let n = Nonce::from_data_ref(nonce).map_err(|e| e.to_string())?;
        let t = AuthenticationTag::from_data_ref(tag).map_err(|e| e.to_string())?;
        Ok(EncryptedMessage::new(ct.to_vec(), aad.to_vec(), n, t))
    };
    let inst = |r: Result<EncryptedMessage, String>| r.and_then(|m| install(enc, m));
    // every single-bit flip of every field (ciphertext sampled above 256 bytes unless exhaustive)
    // (exhaustive up to 8 KiB of ciphertext: every flip costs a copy and a decryption of the whole message)
    let exhaustive = exhaustive && ct.len() <= 8192;
    let ct_bits: Vec<usize> = if exhaustive || ct.len() <= 256 { (0..ct.len() * 8).collect() } else { (0..1024).map(|_| rng.below(ct.len() * 8)).collect() };
    if exhaustive || ct.len() <= 256 {
        ctx.count("exhaustive_bitflip_messages");
    }
    for b in ct_bits {
        expect_reject(ctx, inst(mk(&flip(&ct, b), &aad, &nonce, &tag)), key, "ct-bitflip", enc, || format!("ciphertext bit {}", b));
    }
    for b in 0..nonce.len() * 8 {
        expect_reject(ctx, inst(mk(&ct, &aad, &flip(&nonce, b), &tag)), key, "nonce-bitflip", enc, || format!("nonce bit {}", b));
    }
    for b in 0..tag.len() * 8 {
        expect_reject(ctx, inst(mk(&ct, &aad, &nonce, &flip(&tag, b))), key, "tag-bitflip", enc, || format!("tag bit {}", b));
    }
    for b in 0..aad.len() * 8 {
        expect_reject(ctx, inst(mk(&ct, &flip(&aad, b), &nonce, &tag)), key, "aad-bitflip", enc, || format!("aad bit {}", b));
    }
    // truncation / extension
    if !ct.is_empty() {
        expect_reject(ctx, inst(mk(&ct[..ct.len() - 1], &aad, &nonce, &tag)), key, "ct-truncate", enc, || "ciphertext truncated".into());
        expect_reject(ctx, inst(mk(&ct[1..], &aad, &nonce, &tag)), key, "ct-truncate", enc, || "ciphertext head removed".into());
    }
    let mut ext = ct.clone();
    ext.push(0);
    expect_reject(ctx, inst(mk(&ext, &aad, &nonce, &tag)), key, "ct-extend", enc, || "ciphertext extended".into());
    expect_reject(ctx, inst(mk(&[], &aad, &nonce, &tag)), key, "ct-empty", enc, || "empty ciphertext".into());
    // declared digest replaced by another well-formed digest
    let other = Digest::from_image(rng.bytes(16));
    let other_aad = dcbor::CBOR::from(other).to_cbor_data();
    expect_reject(ctx, inst(mk(&ct, &other_aad, &nonce, &tag)), key, "digest-replaced", enc, || "declared digest replaced".into());
    // wrong key
    let wrong = fresh_key(rng);
    ctx.eval();
    ctx.count("fault_wrong-key");
    match trap::guard(|| enc.decrypt_subject(&wrong)) {
        Ok(Err(_)) => {}
        Ok(Ok(_)) => ctx.violation("wrong-key-accepted", "decrypt_subject succeeded with another key", jhex(enc)),
        Err(p) => ctx.violation(&format!("wrong-key-panic/{}", p.signature()), &format!("{:?}", p), jhex(enc)),
    }
}

pub fn run(ctx: &mut Ctx) {
    let total = ctx.n(16_000, 40_000);
    for case in ctx.cases(total) {
        ctx.begin_case(case);
        let mut rng = ctx.rng(case);
        let mut cfg = cfg_for(ctx, case);
        cfg.big = case % 16 == 0;
        cfg.node_subject = case % 4 == 1;
        let (_m, e) = universe(&mut rng, cfg, case);
        let key = fresh_key(&mut rng);
        let t = tree_of(&e);
        ctx.nontrivial(t.shape_hash());
        ctx.count(&format!("subject_case_{:?}", if t.kind == Kind::Node { t.children[0].kind } else { t.kind }));
        ctx.count(if t.kind == Kind::Node { "with_assertions" } else { "without_assertions" });

        // round trip: subject
        ctx.eval();
        let enc = match trap::guard(|| e.encrypt_subject(&key)) {
            Ok(Ok(x)) => x,
            Ok(Err(err)) => {
                ctx.violation("encrypt_subject/err", &format!("{}", err), jhex(&e));
                continue;
            }
            Err(p) => {
                ctx.violation(&format!("encrypt_subject/panic/{}", p.signature()), &format!("{:?}", p), jhex(&e));
                continue;
            }
        };
        if gen::root_digest(&enc) != t.digest {
            ctx.violation("encrypt_subject/digest", "encrypted form has another digest", jhex(&e));
        }
        if !enc.is_subject_encrypted() {
            ctx.violation("encrypt_subject/not-encrypted", "subject is not encrypted", jhex(&e));
        }
        check_spec(ctx, &enc, "encrypt_subject");
        match trap::guard(|| enc.decrypt_subject(&key)) {
            Ok(Ok(d)) => {
                if let Some(df) = pos::diff(&tree_of(&d), &t) {
                    ctx.violation(&format!("roundtrip/tree/{}", diff_class(&df)), &df, jhex(&e));
                }
                if !d.is_identical_to(&e) || env_bytes(&d) != env_bytes(&e) {
                    ctx.violation("roundtrip/not-identical", "decrypt(encrypt(E)) is not identical to E", jhex(&e));
                }
            }
            Ok(Err(err)) => ctx.violation("roundtrip/err", &format!("{}", err), jhex(&e)),
            Err(p) => ctx.violation(&format!("roundtrip/panic/{}", p.signature()), &format!("{:?}", p), jhex(&e)),
        }
        // round trip: whole (wrap + encrypt)
        ctx.eval();
        ctx.count("roundtrip_whole");
        let whole = e.encrypt(&key);
        if gen::root_digest(&whole) != gen::root_digest(&e.wrap_envelope()) {
            ctx.violation("encrypt/digest", "encrypt() result does not carry the wrapped envelope's digest", jhex(&e));
        }
        match trap::guard(|| whole.decrypt(&key)) {
            Ok(Ok(d)) => {
                if !d.is_identical_to(&e) || env_bytes(&d) != env_bytes(&e) {
                    ctx.violation("roundtrip-whole/not-identical", "decrypt(encrypt(E)) is not identical to E", jhex(&e));
                }
            }
            Ok(Err(err)) => ctx.violation("roundtrip-whole/err", &format!("{}", err), jhex(&e)),
            Err(p) => ctx.violation(&format!("roundtrip-whole/panic/{}", p.signature()), &format!("{:?}", p), jhex(&e)),
        }
        // round trip: Encrypt elision action — every produced element decrypts to the original element
        let flat = t.flatten();
        if flat.len() > 1 {
            let (path, target) = &flat[rng.range(1, flat.len() - 1)];
            let _ = path;
            let r = e.elide_removing_set_with_action(&gen::digest_set(&[target.digest]), &action(Act::Encrypt, &key));
            for (p2, x) in pos::positions(&r) {
                if x.is_encrypted() {
                    ctx.eval();
                    ctx.count("roundtrip_elision_elements");
                    let want = t.at(&p2);
                    match x.decrypt_subject(&key) {
                        Ok(d) => {
                            if want.map(|w| pos::diff(&tree_of(&d), w).is_some()).unwrap_or(true) {
                                ctx.violation("roundtrip-element/differs", "element produced by the Encrypt action does not decrypt to the original element", jhex(&e));
                            }
                        }
                        Err(err) => ctx.violation("roundtrip-element/err", &format!("{}", err), jhex(&e)),
                    }
                }
            }
        }
        // the Encrypt action aimed at an element that is ALREADY encrypted under another key adds a layer:
        // the new element opens with the second key (only), to exactly the first-key element
        if flat.len() > 1 {
            let (_, target) = &flat[rng.range(1, flat.len() - 1)];
            // (every third time the second layer uses the SAME key as the first)
            let k2 = if case % 3 == 0 { key.clone() } else { fresh_key(&mut rng) };
            let same_key = case % 3 == 0;
            let set = gen::digest_set(&[target.digest]);
            let r1 = e.elide_removing_set_with_action(&set, &action(Act::Encrypt, &key));
            let mut r6 = rng.fork();
            let r2 = match trap::guard(|| gen::elide_via_any_entry_point(&r1, &[target.digest], false, Act::Encrypt, &k2, &mut r6)) {
                Ok(x) => x,
                Err(p) => {
                    ctx.violation(&format!("second-layer/panic/{}", p.signature()), &format!("{:?}", p), jhex(&r1));
                    continue;
                }
            };
            let first: std::collections::HashMap<crate::pos::Path, Envelope> = pos::positions(&r1).into_iter().collect();
            for (p2, x2) in pos::positions(&r2) {
                if x2.is_encrypted() && gen::root_digest(&x2) == target.digest {
                    ctx.eval();
                    ctx.count("second_layer_elements");
                    let x1 = match first.get(&p2) {
                        Some(x1) => x1,
                        None => continue,
                    };
                    match x2.decrypt_subject(&k2) {
                        Ok(d) => {
                            if env_bytes(&d) != env_bytes(x1) {
                                ctx.violation("second-layer/differs", "an element encrypted a second time (Encrypt action, other key) does not open to the first-key element", jhex(&e));
                            }
                        }
                        Err(err) => ctx.violation("second-layer/err", &format!("an element encrypted a second time does not open with the second key: {}", err), jhex(&e)),
                    }
                    if !same_key && x2.decrypt_subject(&key).is_ok() {
                        ctx.violation("second-layer/opens-with-first-key", "an element encrypted a second time under another key still opens with the first key alone", jhex(&e));
                    }
                }
            }
        }
        // receivers whose subject is already a placeholder of another kind (elided, compressed): the subject
        // is encrypted as it stands, the digest is kept, decryption gives the receiver back
        if t.kind == Kind::Node {
            for form in ["elided-subject", "compressed-subject"] {
                let recv = if form == "elided-subject" { e.elide_removing_target(&e.subject()) } else { e.compress_subject().unwrap_or(e.clone()) };
                if !(recv.is_subject_elided() || recv.is_subject_compressed()) {
                    continue;
                }
                ctx.eval();
                ctx.count(&format!("receiver_{}", form));
                match trap::guard(|| recv.encrypt_subject(&key)) {
                    Ok(Ok(x)) => {
                        if gen::root_digest(&x) != t.digest || !x.is_subject_encrypted() {
                            ctx.violation(&format!("{}/digest", form), "encrypt_subject on a receiver with a placeholder subject changed the digest / did not encrypt", jhex(&recv));
                        }
                        check_spec(ctx, &x, "encrypt_subject on placeholder subject");
                        match x.decrypt_subject(&key) {
                            Ok(d) if env_bytes(&d) == env_bytes(&recv) => {}
                            Ok(_) => ctx.violation(&format!("{}/roundtrip-differs", form), "decrypt_subject does not give the receiver back", jhex(&recv)),
                            Err(err) => ctx.violation(&format!("{}/roundtrip-err", form), &format!("{}", err), jhex(&recv)),
                        }
                        if x.encrypt_subject(&key).is_ok() {
                            ctx.violation(&format!("{}/double-encrypt-accepted", form), "a second encrypt_subject was accepted", jhex(&recv));
                        }
                    }
                    Ok(Err(err)) => ctx.violation(&format!("{}/err", form), &format!("encrypt_subject refused a receiver whose subject is a placeholder of another kind: {}", err), jhex(&recv)),
                    Err(p) => ctx.violation(&format!("{}/panic/{}", form, p.signature()), &format!("{:?}", p), jhex(&recv)),
                }
            }
        }
        // an encrypted envelope (of any case, also a whole node) used as the subject of further
        // assertions, then decrypted in place
        {
            ctx.eval();
            ctx.count(&format!("encrypted_as_subject_{:?}", t.kind));
            let placeholder = e.elide_removing_set_with_action(&gen::digest_set(&[t.digest]), &action(Act::Encrypt, &key));
            let outer = placeholder.add_assertion("outer-pred", case).add_assertion(known_values::NOTE, "n");
            let od = gen::root_digest(&outer);
            match trap::guard(|| outer.decrypt_subject(&key)) {
                Ok(Ok(d)) => {
                    let dt = tree_of(&d);
                    if dt.digest != od {
                        ctx.violation(&format!("encrypted-as-subject/digest-changed/{:?}", t.kind), "decrypt_subject changed the digest", jhex(&outer));
                    } else if dt.kind != Kind::Node || pos::diff(&dt.children[0], &t).is_some() {
                        ctx.violation("encrypted-as-subject/subject-differs", "the decrypted subject is not the original envelope", jhex(&outer));
                    }
                }
                Ok(Err(err)) => ctx.violation(&format!("encrypted-as-subject/err/{:?}", t.kind), &format!("decrypt_subject with the right key failed: {}", err), jhex(&outer)),
                Err(p) => ctx.violation(&format!("encrypted-as-subject/panic/{}", p.signature()), &format!("{:?}", p), jhex(&outer)),
            }
        }
        // digest-equal forms back to back: the full envelope, then copies with parts obscured (same
        // digests, other structure) - each must come back identical to what went in
        {
            let mut forms: Vec<Envelope> = vec![e.clone()];
            for _ in 0..2 {
                forms.push(gen::obscure_random(&e, &mut rng, 2, &key));
            }
            forms.push(e.clone());
            for (i, f) in forms.iter().enumerate() {
                if f.is_subject_encrypted() || f.is_subject_elided() {
                    continue;
                }
                ctx.eval();
                ctx.count("roundtrip_digest_equal_forms");
                match trap::guard(|| f.encrypt_subject(&key).and_then(|x| x.decrypt_subject(&key))) {
                    Ok(Ok(d)) => {
                        if !d.is_identical_to(f) || env_bytes(&d) != env_bytes(f) {
                            ctx.violation("roundtrip-after-other-form/not-identical", &format!("form #{} of the same digest did not come back identical right after another form was encrypted", i), J::obj(vec![("form", jhex(f)), ("came_back", jhex(&d))]));
                        }
                    }
                    Ok(Err(err)) => ctx.violation("roundtrip-after-other-form/err", &format!("{}", err), jhex(f)),
                    Err(p) => ctx.violation(&format!("roundtrip-after-other-form/panic/{}", p.signature()), &format!("{:?}", p), jhex(f)),
                }
            }
        }
        // second encryption refused
        ctx.eval();
        ctx.count("double_encrypt");
        if let Ok(Ok(_)) = trap::guard(|| enc.encrypt_subject(&fresh_key(&mut rng.fork()))) {
            ctx.violation("double-encrypt-accepted", "an already encrypted subject was encrypted again", jhex(&e));
        }

        // faults
        let exhaustive = ctx.tier == crate::ctx::Tier::Thorough && case % 8 == 0;
        tamper_all(ctx, &enc, &key, &mut rng, exhaustive);
        if case % 4 == 0 {
            tamper_all(ctx, &whole, &key, &mut rng, false);
        }

        // mis-declaration by a key holder: content Y, declared digest d(Z)
        let y = match rng.below(6) {
            0 => Envelope::new(format!("Y-{}", case)),
            1 => Envelope::new(format!("Y-{}", case)).wrap_envelope(),
            2 => Envelope::new_assertion("yk", case),
            3 => Envelope::new(KnownValue::new(case % 97)),
            4 => Envelope::new(format!("Y-{}", case)).elide(),
            _ => Envelope::new(format!("Y-{}", case)).add_assertion("k", case),
        };
        let z_digest = Digest::from_data(t.digest);
        let subj_digest = Digest::from_data(if t.kind == Kind::Node { t.children[0].digest } else { t.digest });
        // (Y must really be something else than what the digest stands for)
        if gen::root_digest(&y) != *subj_digest.data() {
            let forged_msg = key.encrypt_with_digest(env_bytes(&y), &subj_digest, None::<Nonce>);
            expect_reject(ctx, install(&enc, forged_msg), &key, "misdeclared-content", &enc, || "content Y encrypted under the declared digest of the original subject".into());
        }
        if gen::root_digest(&y) != t.digest {
            let forged_bare = key.encrypt_with_digest(env_bytes(&y), &z_digest, None::<Nonce>);
            expect_reject(ctx, Envelope::try_from(forged_bare).map_err(|e| e.to_string()), &key, "misdeclared-content-bare", &enc, || "bare forged message".into());
        }
        // near-miss declarations by a key holder: the real content under a digest that differs from the
        // real one in exactly one bit (every bit of the last byte, the first byte, and sampled others)
        {
            let real = env_bytes(&e.subject());
            let mut bits: Vec<usize> = (248..256).chain(0..8).collect();
            for _ in 0..16 {
                bits.push(rng.below(256));
            }
            if case % 8 == 0 {
                bits = (0..256).collect();
                ctx.count("near_miss_all_256_bits");
            }
            for b in bits {
                let mut d = *subj_digest.data();
                d[b / 8] ^= 1 << (b % 8);
                let near = Digest::from_data(d);
                let forged = key.encrypt_with_digest(real.clone(), &near, None::<Nonce>);
                // bare, and as the subject of a node (where only the subject-level comparison can notice,
                // because the node digest is then computed from the declared digest)
                expect_reject(ctx, Envelope::try_from(forged.clone()).map_err(|e| e.to_string()), &key, "near-miss-digest-bare", &enc, || format!("declared digest differs from the content's digest in bit {}", b));
                let as_subject = Envelope::try_from(forged).map(|s| s.add_assertion("k", 1)).map_err(|e| e.to_string());
                expect_reject(ctx, as_subject, &key, "near-miss-digest-subject", &enc, || format!("declared digest differs in bit {} (as node subject)", b));
            }
        }
        // content that is not an envelope at all
        let junk = key.encrypt_with_digest(dcbor::CBOR::from("not an envelope").to_cbor_data(), &subj_digest, None::<Nonce>);
        expect_reject(ctx, install(&enc, junk), &key, "misdeclared-nonenvelope", &enc, || "plaintext is not an envelope".into());
        // the right content but leaf/wrapped confusion: the subject wrapped once more
        let s = e.subject();
        let confused = key.encrypt_with_digest(env_bytes(&s.wrap_envelope()), &subj_digest, None::<Nonce>);
        expect_reject(ctx, install(&enc, confused), &key, "misdeclared-wrapped", &enc, || "wrapped subject under the subject's digest".into());
        ctx.sample(|| J::obj(vec![("case", J::i(case)), ("envelope", J::s(brief(&t))), ("ciphertext_len", J::i(msg_of(&enc).map(|m| m.ciphertext().len()).unwrap_or(0) as u64))]));
    }
}
