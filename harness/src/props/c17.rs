//! C17 — salting decorrelates without changing content.

use std::collections::HashSet;

use bc_components::Salt;
use bc_envelope::prelude::*;

use super::common::*;
use crate::ctx::Ctx;
use crate::gen;
use crate::json::J;
use crate::pos::{d32, tree_of, T};
use crate::spec::{Kind, D32};
use crate::trap;

fn salt_kv() -> u64 {
    known_values::SALT.value()
}

/// salt assertions directly on `t` (a node): (index, salt length if the object is a Salt leaf)
fn salts_of(e: &Envelope) -> Vec<Option<usize>> {
    let mut out = Vec::new();
    for a in e.assertions() {
        let s = a.subject();
        if let (Some(p), Some(o)) = (s.as_predicate(), s.as_object()) {
            if p.as_known_value().map(|k| k.value()) == Some(salt_kv()) {
                out.push(o.extract_subject::<Salt>().ok().map(|s| s.len()));
            }
        }
    }
    out
}

fn doc_range(n: usize) -> (usize, usize) {
    let lo = 8usize.max((n as f64 * 0.05).ceil() as usize);
    let hi = (lo + 8).max((n as f64 * 0.25).ceil() as usize);
    (lo, hi)
}

/// content preserved: same subject, every earlier assertion still there, exactly `added` more
fn preserved(before: &T, after: &T, added: usize) -> Option<String> {
    let (bs, ba): (&T, Vec<D32>) = if before.kind == Kind::Node { (&before.children[0], before.children[1..].iter().map(|c| c.digest).collect()) } else { (before, vec![]) };
    if after.kind != Kind::Node {
        return Some("result is not a node".into());
    }
    if after.children[0] != *bs {
        return Some("subject changed".into());
    }
    let aa: Vec<D32> = after.children[1..].iter().map(|c| c.digest).collect();
    if !ba.iter().all(|d| aa.contains(d)) {
        return Some("an existing assertion is gone".into());
    }
    if aa.len() != ba.len() + added {
        return Some(format!("{} assertions before, {} after (expected +{})", ba.len(), aa.len(), added));
    }
    for c in &before.children {
        if let Some(x) = after.children.iter().find(|x| x.digest == c.digest) {
            if x != c {
                return Some("an existing element changed".into());
            }
        }
    }
    None
}

pub fn run(ctx: &mut Ctx) {
    // the process-wide known-values registry is a naming aid for formatting: an application may register its own
    // value under any name, also one that collides with a well-known name. Nothing the salting functions do may
    // depend on that registry.
    {
        let mut g = bc_envelope::KNOWN_VALUES.get();
        if let Some(store) = g.as_mut() {
            store.insert(KnownValue::new_with_name(100_015u64, "salt".to_string()));
            store.insert(KnownValue::new_with_name(100_016u64, "isA".to_string()));
        }
    }
    let total = ctx.n(12_000, 1_000_000);
    for case in ctx.cases(total) {
        ctx.begin_case(case);
        let mut rng = ctx.rng(case);
        // serialised sizes 1 B .. 100 KB on a log scale
        let exp = rng.below(17);
        let size = if case % 3 == 0 { 1usize << exp } else { (1usize << exp) + rng.below(1 << exp) };
        let size = size.min(100_000);
        let base = match rng.below(3) {
            0 => Envelope::new(dcbor::ByteString::from(rng.bytes(size))),
            1 => Envelope::new("x".repeat(size)),
            _ => {
                let (_m, e) = universe(&mut rng, cfg_for(ctx, case), case);
                e.add_assertion("payload", dcbor::ByteString::from(rng.bytes(size)))
            }
        };
        let base = if rng.chance(1, 4) { base.add_salt() } else { base };
        // some envelopes already have obscured parts (salting must not care)
        let base = if case % 5 == 0 {
            let k0 = fresh_key(&mut rng);
            ctx.count("inputs_with_obscured_parts");
            gen::obscure_random(&base, &mut rng, 2, &k0)
        } else {
            base
        };
        let before = tree_of(&base);
        let n = env_bytes(&base).len();
        ctx.count(&format!("size_2^{}", (n as f64).log2().floor() as u32));
        ctx.nontrivial((n as u64) << 8 | before.shape_hash() & 0xff);
        let prior_salts = salts_of(&base).len();
        let replay = || J::obj(vec![("envelope_hex", J::s(hex::encode(&env_bytes(&base)[..n.min(200)]))), ("size", J::i(n as u64))]);

        // 1. add_salt
        ctx.eval();
        ctx.count("add_salt");
        match trap::guard(|| base.add_salt()) {
            Err(p) => ctx.violation(&format!("add_salt/panic/{}", p.signature()), &format!("{:?}", p), replay()),
            Ok(s) => {
                let after = tree_of(&s);
                if let Some(d) = preserved(&before, &after, 1) {
                    ctx.violation("add_salt/content", &d, replay());
                }
                let salts = salts_of(&s);
                if salts.len() != prior_salts + 1 {
                    ctx.violation("add_salt/count", &format!("{} salt assertions before, {} after", prior_salts, salts.len()), replay());
                }
                let (lo, hi) = doc_range(n);
                // the new salt is the one not present before
                let old: HashSet<D32> = base.assertions().iter().map(d32).collect();
                for a in s.assertions() {
                    if !old.contains(&d32(&a)) {
                        match a.as_object().and_then(|o| o.extract_subject::<Salt>().ok()) {
                            Some(salt) => {
                                if salt.len() < lo || salt.len() > hi || salt.len() < 8 {
                                    ctx.violation("add_salt/length", &format!("salt of {} bytes for an envelope of {} bytes; documented range {}..={}", salt.len(), n, lo, hi), replay());
                                }
                                if a.as_predicate().and_then(|p| p.as_known_value().map(|k| k.value())) != Some(salt_kv()) {
                                    ctx.violation("add_salt/predicate", "the added assertion is not a 'salt' assertion", replay());
                                }
                            }
                            None => ctx.violation("add_salt/object", "the added assertion's object is not a Salt", replay()),
                        }
                    }
                }
                check_spec(ctx, &s, "add_salt");
            }
        }
        // 1b. consecutive proportional saltings of digest-equal but differently sized forms (the salt is
        //     sized from the serialized size of the very envelope being salted)
        {
            let forms: Vec<(&str, Envelope)> = vec![("full", base.clone()), ("elided", base.elide()), ("compressed", base.compress().unwrap_or(base.elide())), ("full-again", base.clone())];
            let mut order: Vec<usize> = (0..forms.len()).collect();
            rng.shuffle(&mut order);
            for i in order {
                let (label, f) = &forms[i];
                let fsize = env_bytes(f).len();
                let (lo, hi) = doc_range(fsize);
                ctx.eval();
                ctx.count("consecutive_form_saltings");
                let s = f.add_salt();
                let old: HashSet<D32> = f.assertions().iter().map(d32).collect();
                for a in s.assertions() {
                    if !old.contains(&d32(&a)) {
                        let l = a.as_object().and_then(|o| o.extract_subject::<Salt>().ok()).map(|x| x.len());
                        if !matches!(l, Some(l) if l >= lo && l <= hi) {
                            ctx.violation("add_salt/length-after-other-form", &format!("{} form of {} bytes got a salt of {:?} bytes right after salting another form of the same digest; documented range {}..={}", label, fsize, l, lo, hi), replay());
                        }
                    }
                }
            }
        }
        // 1c. add_salt_instance adds exactly the given salt; the *_using entry points obey the same
        //     length rules and are deterministic for equal generators
        {
            ctx.eval();
            ctx.count("instance_and_using_entry_points");
            let glen = rng.range(8, 40);
            let given = Salt::from_data(rng.bytes(glen));
            let s = base.add_salt_instance(given.clone());
            let lens = salts_of(&s);
            if preserved(&before, &tree_of(&s), 1).is_some() && !salts_of(&base).contains(&Some(given.len())) || !lens.contains(&Some(given.len())) {
                ctx.violation("add_salt_instance", "add_salt_instance did not add exactly the given salt", replay());
            }
            // the SAME salt attached again is the same assertion: nothing more is added, and the result is what
            // adding the assertion 'salt': <that salt> by hand gives
            let again = s.add_salt_instance(given.clone());
            let by_hand = base.add_assertion(known_values::SALT, given.clone());
            if env_bytes(&again) != env_bytes(&s) || env_bytes(&by_hand) != env_bytes(&s) {
                ctx.violation("add_salt_instance/same-salt-twice", "attaching the same salt value a second time changed the envelope (or differs from adding the assertion by hand)", replay());
            }
            check_spec(ctx, &again, "same salt instance twice");
            let mut g1 = bc_rand::make_fake_random_number_generator();
            let mut g2 = bc_rand::make_fake_random_number_generator();
            {
                // the same through two generators in the same state, one applied after the other
                let mut ga = bc_rand::make_fake_random_number_generator();
                let mut gb = bc_rand::make_fake_random_number_generator();
                let once = base.add_salt_with_len_using(16, &mut ga).unwrap();
                let twice = once.add_salt_with_len_using(16, &mut gb).unwrap();
                if salts_of(&twice).len() != salts_of(&once).len() {
                    ctx.violation("add_salt_using/same-salt-twice", "two saltings driven by generators in the same state added two identical salt assertions", replay());
                }
                check_spec(ctx, &twice, "same generator state twice");
            }
            let u1 = base.add_salt_using(&mut g1);
            let u2 = base.add_salt_using(&mut g2);
            if env_bytes(&u1) != env_bytes(&u2) {
                ctx.violation("add_salt_using/nondeterministic", "add_salt_using with equal generators gave different envelopes", replay());
            }
            let (lo, hi) = doc_range(n);
            let old: HashSet<D32> = base.assertions().iter().map(d32).collect();
            for a in u1.assertions() {
                if !old.contains(&d32(&a)) {
                    let l = a.as_object().and_then(|o| o.extract_subject::<Salt>().ok()).map(|x| x.len());
                    if !matches!(l, Some(l) if l >= lo && l <= hi) {
                        ctx.violation("add_salt_using/length", &format!("salt of {:?} bytes for {} bytes; range {}..={}", l, n, lo, hi), replay());
                    }
                }
            }
            let mut g3 = bc_rand::make_fake_random_number_generator();
            if base.add_salt_with_len_using(7, &mut g3).is_ok() || base.add_salt_with_len_using(12, &mut g3).map(|x| salts_of(&x).contains(&Some(12))).unwrap_or(false) == false {
                ctx.violation("add_salt_with_len_using", "add_salt_with_len_using accepted 7 bytes or did not add 12", replay());
            }
            if base.add_salt_in_range_using(&(3..=9), &mut g3).is_ok() || base.add_salt_in_range_using(&(9..=11), &mut g3).is_err() {
                ctx.violation("add_salt_in_range_using", "add_salt_in_range_using accepted a range starting below 8 or refused 9..=11", replay());
            }
        }
        // 2. add_salt_with_len
        for c in [0usize, 1, 7, 8, 9, 16, 33, 1000] {
            ctx.eval();
            ctx.count("add_salt_with_len");
            match trap::guard(|| base.add_salt_with_len(c)) {
                Err(p) => ctx.violation(&format!("add_salt_with_len/panic/{}", p.signature()), &format!("{:?}", p), replay()),
                Ok(Ok(s)) => {
                    if c < 8 {
                        ctx.violation("add_salt_with_len/short-accepted", &format!("a request for {} bytes of salt was accepted", c), replay());
                    }
                    let lens = salts_of(&s);
                    let old_lens = salts_of(&base);
                    if lens.len() != prior_salts + 1 || !lens.contains(&Some(c)) && !old_lens.contains(&Some(c)) {
                        ctx.violation("add_salt_with_len/length", &format!("requested {} bytes, salt lengths now {:?}", c, lens), replay());
                    }
                    if let Some(d) = preserved(&before, &tree_of(&s), 1) {
                        ctx.violation("add_salt_with_len/content", &d, replay());
                    }
                }
                Ok(Err(_)) => {
                    if c >= 8 {
                        ctx.violation("add_salt_with_len/refused", &format!("a request for {} bytes of salt was refused", c), replay());
                    }
                }
            }
        }
        // 3. add_salt_in_range
        for _ in 0..4 {
            let a = *rng.pick(&[0usize, 1, 7, 8, 9, 20, 64]);
            let b = a + rng.below(40);
            ctx.eval();
            ctx.count("add_salt_in_range");
            match trap::guard(|| base.add_salt_in_range(a..=b)) {
                Err(p) => ctx.violation(&format!("add_salt_in_range/panic/{}", p.signature()), &format!("{:?}", p), replay()),
                Ok(Ok(s)) => {
                    if a < 8 {
                        ctx.violation("add_salt_in_range/short-accepted", &format!("range {}..={} accepted", a, b), replay());
                    }
                    let old: HashSet<D32> = base.assertions().iter().map(d32).collect();
                    for x in s.assertions() {
                        if !old.contains(&d32(&x)) {
                            let l = x.as_object().and_then(|o| o.extract_subject::<Salt>().ok()).map(|s| s.len());
                            if !matches!(l, Some(l) if l >= a && l <= b) {
                                ctx.violation("add_salt_in_range/length", &format!("range {}..={} gave salt length {:?}", a, b, l), replay());
                            }
                        }
                    }
                    if let Some(d) = preserved(&before, &tree_of(&s), 1) {
                        ctx.violation("add_salt_in_range/content", &d, replay());
                    }
                }
                Ok(Err(_)) => {
                    if a >= 8 {
                        ctx.violation("add_salt_in_range/refused", &format!("range {}..={} refused", a, b), replay());
                    }
                }
            }
        }
        // 4. salted assertions (in a third of the cases the very same assertion is already present
        //    unsalted: the salted add must still add a new, salted element)
        let p = format!("pred-{}", case);
        let o = dcbor::ByteString::from(rng.bytes(size.min(4000)));
        let plain = Envelope::new_assertion(p.clone(), o.clone());
        let plain_n = env_bytes(&plain).len();
        let plain_already_present = case % 3 == 1;
        let base4 = if plain_already_present {
            ctx.count("salted_add_onto_existing_plain");
            base.add_assertion_envelope(plain.clone()).unwrap()
        } else {
            base.clone()
        };
        let before4 = tree_of(&base4);
        let mut digests: HashSet<D32> = HashSet::new();
        let reps = 8;
        for k in 0..reps {
            ctx.eval();
            ctx.count("add_assertion_salted");
            let r = trap::guard(|| match k % 3 {
                0 => base4.add_assertion_salted(p.clone(), o.clone(), true),
                1 => base4.add_assertion_envelope_salted(plain.clone(), true).unwrap(),
                _ => base4.add_assertions_salted(&[plain.clone()], true),
            });
            let s = match r {
                Ok(s) => s,
                Err(pn) => {
                    ctx.violation(&format!("add_assertion_salted/panic/{}", pn.signature()), &format!("{:?}", pn), replay());
                    continue;
                }
            };
            if let Some(d) = preserved(&before4, &tree_of(&s), 1) {
                ctx.violation("add_assertion_salted/content", &d, replay());
            }
            let found = s.assertions_with_predicate(p.clone());
            let want_found = if plain_already_present { 2 } else { 1 };
            if found.len() != want_found {
                ctx.violation("add_assertion_salted/not-found-by-predicate", &format!("{} assertions found by the predicate, expected {}", found.len(), want_found), replay());
                continue;
            }
            // the salted element is the one that is not the plain assertion itself
            let Some(a) = found.iter().find(|x| d32(x) != d32(&plain)) else {
                ctx.violation("add_assertion_salted/no-salted-element", "no salted element found by the predicate", replay());
                continue;
            };
            if d32(&a.subject()) != d32(&plain) {
                ctx.violation("add_assertion_salted/subject", "the salted element's subject is not the plain assertion", replay());
            }
            let lens = salts_of(a);
            if lens.len() != 1 || a.assertions().len() != 1 {
                ctx.violation("add_assertion_salted/salt-count", &format!("{} salt assertions (of {} assertions) on the salted assertion", lens.len(), a.assertions().len()), replay());
            } else {
                let (lo, hi) = doc_range(plain_n);
                if !matches!(lens[0], Some(l) if l >= lo && l <= hi) {
                    ctx.violation("add_assertion_salted/length", &format!("salt length {:?} for an assertion of {} bytes (range {}..={})", lens[0], plain_n, lo, hi), replay());
                }
            }
            // the salt sits on the assertion, not on the outer envelope
            if salts_of(&s).len() != prior_salts {
                ctx.violation("add_assertion_salted/salt-on-outer", "salting an assertion changed the number of salt assertions on the envelope itself", replay());
            }
            digests.insert(d32(a));
            digests.insert(gen::root_digest(&s.elide()) /* elided form = digest */);
        }
        // the batch entry point with the same assertion twice: two salted copies (each salting is independent)
        {
            ctx.eval();
            ctx.count("salted_batch_with_repeats");
            let s = base4.add_assertions_salted(&[plain.clone(), plain.clone(), plain.clone()], true);
            let extra = s.assertions().len() as i64 - base4.assertions().len() as i64;
            if extra != 3 {
                ctx.violation("add_assertions_salted/repeats-collapsed", &format!("a batch holding the same assertion three times with salted=true added {} elements instead of 3", extra), replay());
            }
        }
        ctx.eval();
        ctx.count("decorrelation_sets");
        if digests.len() != 2 * reps {
            ctx.violation("decorrelation/collision", &format!("{} independent saltings gave only {} distinct digests", reps, digests.len() / 2), replay());
        }
        // independent add_salt of equal envelopes
        let mut ds: HashSet<D32> = HashSet::new();
        for _ in 0..reps {
            ds.insert(gen::root_digest(&base.add_salt()));
        }
        ctx.eval();
        if ds.len() != reps {
            ctx.violation("decorrelation/add_salt-collision", &format!("{} saltings gave {} distinct digests", reps, ds.len()), replay());
        }
        // independent saltings on DIFFERENT threads (each thread builds its own copy from the bytes)
        if case % 40 == 0 {
            ctx.eval();
            ctx.count("cross_thread_saltings");
            let bytes = env_bytes(&base);
            let run = |bytes: Vec<u8>| {
                std::thread::spawn(move || {
                    let e = Envelope::try_from_cbor_data(bytes).unwrap();
                    (0..4).map(|_| *bc_components::DigestProvider::digest(&e.add_salt()).data()).collect::<Vec<[u8; 32]>>()
                })
            };
            let (h1, h2) = (run(bytes.clone()), run(bytes.clone()));
            if let (Ok(a), Ok(b)) = (h1.join(), h2.join()) {
                let all: HashSet<[u8; 32]> = a.iter().chain(b.iter()).cloned().collect();
                if all.len() != a.len() + b.len() {
                    ctx.violation("decorrelation/across-threads", "saltings of the same envelope on two threads produced equal digests", replay());
                }
            }
        }
        // unsalted adds are deterministic
        ctx.eval();
        ctx.count("unsalted_deterministic");
        let u1 = base.add_assertion_salted(p.clone(), o.clone(), false);
        let u2 = base.add_assertion_envelope_salted(plain.clone(), false).unwrap();
        let u3 = base.add_assertion(p.clone(), o.clone());
        if env_bytes(&u1) != env_bytes(&u2) || env_bytes(&u1) != env_bytes(&u3) {
            ctx.violation("unsalted-not-deterministic", "salted=false gave different envelopes", replay());
        }
        // the assertion offered in an obscured form (elided / compressed / encrypted subject): salted=false is
        // still "the assertion is there once" (adding any form of a present assertion changes nothing), salted=true
        // still attaches exactly one salt to what was given and independent saltings differ
        {
            let key = fresh_key(&mut rng);
            // (and the assertion as it comes out of an earlier salted add: it already carries one 'salt' assertion)
            let forms: Vec<(&str, Envelope)> = vec![("elided", plain.elide()), ("compressed", plain.compress().unwrap()), ("encrypted", plain.encrypt_subject(&key).unwrap()), ("already-salted", plain.add_salt())];
            let with_plain = base.add_assertion_envelope(plain.clone()).unwrap();
            for (label, form) in forms {
                ctx.eval();
                ctx.count("obscured_forms_offered_to_salted_adds");
                let r = trap::guard(|| {
                    let a = with_plain.add_assertion_envelope_salted(form.clone(), false)?;
                    let b = with_plain.add_optional_assertion_envelope_salted(Some(form.clone()), false)?;
                    let c = with_plain.add_assertions_salted(&[form.clone()], false);
                    let s1 = base.add_assertion_envelope_salted(form.clone(), true)?;
                    let s2 = base.add_assertion_envelope_salted(form.clone(), true)?;
                    Ok::<_, anyhow::Error>((a, b, c, s1, s2))
                });
                match r {
                    Ok(Ok((a, b, c, s1, s2))) => {
                        let wp = env_bytes(&with_plain);
                        // (the already-salted form is another assertion with another digest: it is legitimately added)
                        if label != "already-salted" && (env_bytes(&a) != wp || env_bytes(&b) != wp || env_bytes(&c) != wp) {
                            ctx.violation(&format!("unsalted-add-of-present-form/{}", label), "adding (salted=false) another form of an assertion that is already present changed the envelope", replay());
                        }
                        check_spec(ctx, &a, "unsalted add of an obscured twin");
                        for sx in [&s1, &s2] {
                            let newly: Vec<Envelope> = sx.assertions().into_iter().filter(|x| !base.assertions().iter().any(|y| d32(y) == d32(x))).collect();
                            let had = salts_of(&form).len();
                            if newly.len() != 1 || salts_of(&newly[0]).len() != had + 1 || d32(&newly[0].subject()) != d32(&plain) {
                                ctx.violation(&format!("add_assertion_salted/obscured-form/{}", label), "a salted add of an assertion given in obscured form did not add exactly one element carrying exactly one salt over that assertion", replay());
                            }
                        }
                        if d32(&s1) == d32(&s2) {
                            ctx.violation(&format!("decorrelation/obscured-form/{}", label), "two independent salted adds of the same (obscured) assertion gave equal digests", replay());
                        }
                    }
                    Ok(Err(err)) => ctx.violation(&format!("add_assertion_salted/obscured-form-err/{}", label), &format!("{}", err), replay()),
                    Err(pn) => ctx.violation(&format!("add_assertion_salted/panic/{}", pn.signature()), &format!("{:?}", pn), replay()),
                }
            }
        }
        ctx.sample(|| J::obj(vec![("case", J::i(case)), ("serialized_size", J::i(n as u64)), ("documented_range", J::s(format!("{:?}", doc_range(n))))]));
    }
}
