use crate::ctx::Ctx;

pub mod common;
pub mod c01;

pub fn run(prop: &str, ctx: &mut Ctx) -> bool {
    match prop {
        "C01" => c01::run(ctx),
        _ => return false,
    }
    true
}
