//! C06 — the decoder accepts only canonical well-formed envelopes and never crashes.

use bc_envelope::prelude::*;

use super::common::*;
use crate::ctx::Ctx;
use crate::gen;
use crate::json::J;
use crate::rng::Rng;
use crate::spec::{self, count_nodes, encode, encode_quirk, Item, SEnv, ALL_QUIRKS};
use crate::trap;

pub fn reason_class(s: &str) -> String {
    let cut = s.split('(').next().unwrap_or(s);
    let c: String = cut.chars().map(|c| if c.is_ascii_digit() { '#' } else { c }).collect();
    c.trim().to_string()
}

fn alias_positions(s: &SEnv, out: &mut Vec<usize>) {
    if s.alias24 {
        out.push(s.start);
    }
    for c in &s.children {
        alias_positions(c, out);
    }
}

/// rewrite the deprecated leaf tag #6.24 (d8 18) to #6.201 (d8 c9) at leaf positions
pub fn alias_normalise(b: &[u8]) -> Vec<u8> {
    let mut out = b.to_vec();
    if let Ok(s) = spec::parse_envelope_lenient_cbor(b) {
        let mut ps = Vec::new();
        alias_positions(&s, &mut ps);
        for p in ps {
            if out.len() > p + 1 && out[p] == 0xd8 && out[p + 1] == 0x18 {
                out[p + 1] = 0xc9;
            }
        }
    }
    out
}

const MUTS: [&str; 19] = [
    "dup_elided_twin", "swap", "dup", "drop", "arity1", "insert_leaf", "insert_kv", "retag", "retype", "extend", "bytes31", "bytes33", "map0", "map2", "untag", "wrap_tag", "nest", "slot_node", "aad",
];

fn junk(rng: &mut Rng) -> Item {
    match rng.below(8) {
        0 => Item::UInt(rng.below(30) as u64),
        1 => Item::Bytes(rng.bytes(32)),
        2 => {
            let n = rng.below(40);
            Item::Bytes(rng.bytes(n))
        }
        3 => Item::Text("junk".into()),
        4 => Item::Tag(201, Box::new(Item::UInt(7))),
        5 => Item::Map(vec![(Item::Tag(201, Box::new(Item::Text("p".into()))), Item::Tag(201, Box::new(Item::Text("o".into()))))]),
        6 => Item::Array(vec![]),
        _ => Item::Simple(22),
    }
}

const TAGS: [u64; 12] = [200, 201, 24, 40000, 40001, 40002, 40003, 999, 0, 1, 40004, 65536];

fn mutate(item: &Item, counter: &mut usize, target: usize, kind: &str, rng: &mut Rng, applied: &mut bool) -> Item {
    let here = *counter == target;
    *counter += 1;
    if here {
        match (kind, item) {
            ("swap", Item::Array(xs)) if xs.len() >= 2 => {
                let mut v = xs.clone();
                let i = rng.below(v.len());
                let mut j = rng.below(v.len());
                if i == j {
                    j = (j + 1) % v.len();
                }
                v.swap(i, j);
                *applied = true;
                return Item::Array(v);
            }
            ("dup_elided_twin", Item::Array(xs)) if xs.len() >= 2 => {
                // a second copy of one assertion element as its elided digest, right next to it
                let i = 1 + rng.below(xs.len() - 1);
                let enc = encode(&Item::Tag(200, Box::new(xs[i].clone())));
                if let Ok(s) = spec::parse_envelope(&enc) {
                    let mut v = xs.clone();
                    let twin = Item::Bytes(s.digest.to_vec());
                    if rng.chance(1, 2) {
                        v.insert(i, twin);
                    } else {
                        v.insert(i + 1, twin);
                    }
                    *applied = true;
                    return Item::Array(v);
                }
            }
            ("dup", Item::Array(xs)) if !xs.is_empty() => {
                let mut v = xs.clone();
                let i = rng.below(v.len());
                let pos = rng.below(v.len() + 1);
                let x = v[i].clone();
                v.insert(pos, x);
                *applied = true;
                return Item::Array(v);
            }
            ("drop", Item::Array(xs)) if !xs.is_empty() => {
                let mut v = xs.clone();
                v.remove(rng.below(v.len()));
                *applied = true;
                return Item::Array(v);
            }
            ("arity1", Item::Array(xs)) if !xs.is_empty() => {
                *applied = true;
                return Item::Array(vec![xs[0].clone()]);
            }
            ("insert_leaf", Item::Array(xs)) => {
                let mut v = xs.clone();
                v.insert(rng.below(v.len() + 1), junk(rng));
                *applied = true;
                return Item::Array(v);
            }
            ("insert_kv", Item::Array(xs)) => {
                let mut v = xs.clone();
                v.insert(rng.below(v.len() + 1), Item::UInt(rng.below(20) as u64));
                *applied = true;
                return Item::Array(v);
            }
            ("extend", Item::Array(xs)) => {
                let mut v = xs.clone();
                v.push(junk(rng));
                *applied = true;
                return Item::Array(v);
            }
            ("retag", Item::Tag(_, x)) => {
                *applied = true;
                return Item::Tag(*rng.pick(&TAGS), x.clone());
            }
            ("untag", Item::Tag(_, x)) => {
                *applied = true;
                return (**x).clone();
            }
            ("wrap_tag", x) => {
                *applied = true;
                return Item::Tag(*rng.pick(&TAGS), Box::new(x.clone()));
            }
            ("retype", _) => {
                *applied = true;
                return junk(rng);
            }
            ("bytes31", Item::Bytes(b)) if b.len() == 32 => {
                *applied = true;
                return Item::Bytes(b[..31].to_vec());
            }
            ("bytes33", Item::Bytes(b)) if b.len() == 32 => {
                let mut v = b.clone();
                v.push(0);
                *applied = true;
                return Item::Bytes(v);
            }
            ("map0", Item::Map(_)) => {
                *applied = true;
                return Item::Map(vec![]);
            }
            ("map2", Item::Map(es)) => {
                let mut v = es.clone();
                v.push((Item::Tag(201, Box::new(Item::Text("extra-p".into()))), Item::Tag(201, Box::new(Item::Text("extra-o".into())))));
                *applied = true;
                return Item::Map(v);
            }
            ("slot_node", Item::Array(xs)) if xs.len() >= 2 => {
                // an assertion slot holding a well-formed NODE whose subject is not an assertion (a leaf or a
                // known value with the old assertion as its own assertion)
                let i = 1 + rng.below(xs.len() - 1);
                let mut v = xs.clone();
                let subject = if rng.chance(1, 2) { Item::Tag(201, Box::new(Item::Text("x".into()))) } else { Item::UInt(rng.below(20) as u64) };
                let inner_assertion = if matches!(v[i], Item::Map(_)) { v[i].clone() } else { Item::Map(vec![(Item::UInt(1), Item::UInt(2))]) };
                v[i] = Item::Array(vec![subject, inner_assertion]);
                *applied = true;
                return Item::Array(v);
            }
            ("aad", Item::Tag(40002, x)) => {
                // an encrypted element whose additional data is present but is not a tagged digest
                if let Item::Array(parts) = &**x {
                    if parts.len() == 4 {
                        let mut v = parts.clone();
                        v[3] = match rng.below(6) {
                            // a correct tagged digest followed by extra bytes
                            4 | 5 => {
                                let mut a = encode(&Item::Tag(40001, Box::new(Item::Bytes(rng.bytes(32)))));
                                let extra = 1 + rng.below(5);
                                a.extend_from_slice(&rng.bytes(extra));
                                Item::Bytes(a)
                            }
                            0 => Item::Bytes(rng.bytes(32)),
                            1 => Item::Bytes(encode(&Item::Bytes(rng.bytes(32)))),
                            2 => Item::Bytes(encode(&Item::Tag(40001, Box::new(Item::Bytes(rng.bytes(31)))))),
                            _ => Item::Bytes(encode(&Item::Text("application data".into()))),
                        };
                        *applied = true;
                        return Item::Tag(40002, Box::new(Item::Array(v)));
                    }
                }
            }
            ("nest", x) => {
                *applied = true;
                return Item::Array(vec![x.clone(), junk(rng)]);
            }
            _ => {}
        }
    }
    match item {
        Item::Array(xs) => Item::Array(xs.iter().map(|x| mutate(x, counter, target, kind, rng, applied)).collect()),
        Item::Map(es) => Item::Map(es.iter().map(|(k, v)| (mutate(k, counter, target, kind, rng, applied), mutate(v, counter, target, kind, rng, applied))).collect()),
        Item::Tag(t, x) => Item::Tag(*t, Box::new(mutate(x, counter, target, kind, rng, applied))),
        other => other.clone(),
    }
}

fn structural(item: &Item, rng: &mut Rng) -> (Item, String) {
    let n = count_nodes(item);
    for _ in 0..12 {
        let kind = *rng.pick(&MUTS);
        let target = rng.below(n);
        let mut applied = false;
        let mut c = 0;
        let m = mutate(item, &mut c, target, kind, rng, &mut applied);
        if applied {
            return (m, kind.to_string());
        }
    }
    (item.clone(), "none".into())
}

pub fn judge(ctx: &mut Ctx, b: &[u8], origin: &str) {
    ctx.eval();
    ctx.count(&format!("inputs_{}", origin.split(':').next().unwrap()));
    let replay = || J::obj(vec![("origin", J::s(origin)), ("input_hex", J::s(hex::encode(b)))]);
    let res = trap::guard(|| Envelope::try_from_cbor_data(b.to_vec()));
    let s1 = spec::parse_envelope(b);
    match res {
        Err(p) => ctx.violation(&format!("decode-panic/{}", p.signature()), &format!("{:?}", p), replay()),
        Ok(Err(_)) => {
            ctx.count("rejected");
            if s1.is_ok() {
                ctx.count("s1_accepts_lib_rejects");
                ctx.notes.push(format!("s1 accepts but library rejects ({}): {}", origin, hex::encode(&b[..b.len().min(48)])));
                ctx.notes.truncate(8);
            }
        }
        Ok(Ok(e)) => {
            ctx.count("accepted");
            let re = match trap::guard(|| env_bytes(&e)) {
                Ok(r) => r,
                Err(p) => {
                    ctx.violation(&format!("reencode-panic/{}", p.signature()), &format!("{:?}", p), replay());
                    return;
                }
            };
            let norm = alias_normalise(b);
            if norm != b {
                ctx.count("alias24_inputs_accepted");
            }
            let class = match &s1 {
                Ok(_) => "s1-accepts".to_string(),
                Err(r) => reason_class(&r.0),
            };
            if re != norm {
                ctx.violation(
                    &format!("accept-reencode-differs/{}", class),
                    &format!("decoder accepted {} input whose re-encoding differs (spec recogniser: {:?})", origin, s1.as_ref().err().map(|r| r.0.clone())),
                    replay(),
                );
            } else if let Err(r) = &s1 {
                if r.0.starts_with("cbor:") || r.0.contains("aad cbor") {
                    // the bytes are not deterministic CBOR (S1's leaf-level rules are dCBOR's: shortest heads,
                    // shortest floats, numeric reduction, canonical NaN, sorted unique map keys, NFC text, no
                    // indefinite lengths), yet the library takes them and re-encodes them unchanged
                    ctx.count("s1_leaf_strictness_disagreements");
                    ctx.violation(&format!("accept-nondeterministic-cbor/{}", class), &format!("decoder accepted {} input that is not deterministic CBOR: {}", origin, r.0), replay());
                } else {
                    ctx.violation(&format!("accept-malformed/{}", class), &format!("decoder accepted an input the envelope grammar rejects: {}", r.0), replay());
                }
            }
            if origin.starts_with("mut") || origin.starts_with("byte") {
                ctx.count("accepted_mutants");
            }
        }
    }
}

pub fn run(ctx: &mut Ctx) {
    let total = ctx.n(80_000, 2_000_000);
    let sweep = special_numbers_len();
    for case in ctx.cases(total + sweep) {
        ctx.begin_case(case);
        let mut rng = ctx.rng(case);
        let mut cfg = cfg_for(ctx, case);
        cfg.node_subject = case % 4 == 0;
        cfg.big = false;
        let (_m, e0) = if case >= total {
            ctx.count("special_number_sweep");
            let m = special_number_model((case - total) as usize);
            let e = gen::build(&m, crate::gen::Route::Plain, &mut rng);
            (m, e)
        } else {
            universe(&mut rng, cfg, case)
        };
        let key = fresh_key(&mut rng);
        let e = if rng.chance(1, 2) { gen::obscure_random(&e0, &mut rng, 2, &key) } else { e0 };
        let valid = env_bytes(&e);
        let t = crate::pos::tree_of(&e);
        if t.count() > 1 {
            ctx.nontrivial(t.shape_hash());
        }
        judge(ctx, &valid, "valid");
        let item = match spec::parse_item(&valid) {
            Ok(i) => i,
            Err(err) => {
                ctx.violation("valid-encoding-unparseable", &err, J::s(hex::encode(&valid)));
                continue;
            }
        };
        // single structural mutations
        for _ in 0..6 {
            let (m, kind) = structural(&item, &mut rng);
            let b = encode(&m);
            if b != valid {
                ctx.nontrivial(crate::rng::fnv(&kind) ^ t.shape_hash());
                judge(ctx, &b, &format!("mut1:{}", kind));
            }
        }
        // double structural mutations
        for _ in 0..3 {
            let (m1, k1) = structural(&item, &mut rng);
            let (m2, k2) = structural(&m1, &mut rng);
            let b = encode(&m2);
            if b != valid {
                judge(ctx, &b, &format!("mut2:{}+{}", k1, k2));
            }
        }
        // the deprecated leaf alias: retag one leaf 201 -> 24 (must be accepted and read as 201)
        {
            let n = count_nodes(&item);
            fn retag24(it: &Item, c: &mut usize, target: usize, done: &mut bool) -> Item {
                let here = *c == target;
                *c += 1;
                match it {
                    Item::Tag(201, x) if here => {
                        *done = true;
                        Item::Tag(24, x.clone())
                    }
                    Item::Array(xs) => Item::Array(xs.iter().map(|x| retag24(x, c, target, done)).collect()),
                    Item::Map(es) => Item::Map(es.iter().map(|(k, v)| (retag24(k, c, target, done), retag24(v, c, target, done))).collect()),
                    Item::Tag(t, x) => Item::Tag(*t, Box::new(retag24(x, c, target, done))),
                    o => o.clone(),
                }
            }
            for _ in 0..4 {
                let mut done = false;
                let mut c = 0;
                let m = retag24(&item, &mut c, rng.below(n), &mut done);
                if done {
                    judge(ctx, &encode(&m), "alias24");
                    break;
                }
            }
        }
        // history: right after the valid input, a DIFFERENT byte string of the same length and the same CRC-32
        // (a decoder must judge every input on its own bytes)
        if case % 3 == 0 {
            if let Some(twin) = crate::adv::same_len_same_crc(&valid) {
                ctx.count("same_length_same_crc_twins");
                judge(ctx, &valid, "valid");
                judge(ctx, &twin, "byte:same-crc-twin");
            }
        }
        // non-canonical CBOR encodings of the same item
        let n = count_nodes(&item);
        for _ in 0..5 {
            let q = *rng.pick(&ALL_QUIRKS);
            let start = rng.below(n);
            for off in 0..n.min(48) {
                let (b, applied) = encode_quirk(&item, (start + off) % n, q);
                if applied {
                    if b != valid {
                        ctx.count(&format!("quirk_{:?}", q));
                        judge(ctx, &b, &format!("quirk:{:?}", q));
                    }
                    break;
                }
            }
        }
        // byte-level mutations
        for _ in 0..6 {
            let mut b = valid.clone();
            let kind = rng.below(5);
            match kind {
                0 => {
                    let i = rng.below(b.len());
                    b[i] ^= 1 << rng.below(8);
                }
                1 => {
                    let i = rng.below(b.len() + 1);
                    b.insert(i, rng.next_u64() as u8);
                }
                2 => {
                    let i = rng.below(b.len());
                    b.remove(i);
                }
                3 => {
                    let i = rng.range(1, b.len());
                    b.truncate(i);
                }
                _ => {
                    let i = rng.below(b.len());
                    b[i] = rng.next_u64() as u8;
                }
            }
            if b != valid {
                judge(ctx, &b, &format!("byte:{}", ["flip", "insert", "delete", "truncate", "set"][kind]));
            }
        }
        // random bytes, bare and behind the envelope tag; bounded nesting
        let n = rng.range(1, 48);
        let rb = rng.bytes(n);
        judge(ctx, &rb, "random");
        let mut rb2 = vec![0xd8, 0xc8];
        rb2.extend_from_slice(&rb);
        judge(ctx, &rb2, "random:tagged");
        if case % 400 == 0 {
            // integers spelled as floats (numeric reduction): every width that holds the value exactly
            for k in 0..64u32 {
                for v in [1u64 << k, (1u64 << k) + (1u64 << (k.saturating_sub(rng.range(1, 23) as u32))), 3u64 << k.min(61)] {
                    let f = v as f64;
                    if (f as u128) != v as u128 {
                        continue;
                    }
                    for neg in [false, true] {
                        let f = if neg { -f } else { f };
                        let mut forms: Vec<Vec<u8>> = Vec::new();
                        let h = half::f16::from_f64(f);
                        if h.to_f64() == f {
                            forms.push([vec![0xf9], h.to_bits().to_be_bytes().to_vec()].concat());
                        }
                        if ((f as f32) as f64) == f {
                            forms.push([vec![0xfa], (f as f32).to_bits().to_be_bytes().to_vec()].concat());
                        }
                        forms.push([vec![0xfb], f.to_bits().to_be_bytes().to_vec()].concat());
                        for form in forms {
                            ctx.count("float_spelled_integers");
                            let mut b = vec![0xd8, 0xc8, 0xd8, 0xc9];
                            b.extend_from_slice(&form);
                            judge(ctx, &b, "quirk:float-spelled-integer");
                            // and as the object of an assertion
                            let mut b = vec![0xd8, 0xc8, 0xa1, 0x01];
                            b.extend_from_slice(&[0xd8, 0xc9]);
                            b.extend_from_slice(&form);
                            judge(ctx, &b, "quirk:float-spelled-integer");
                        }
                    }
                }
            }
        }
        if case % 1999 == 3 {
            // two threads decode at the same time: one a node whose assertions are out of order, the other the
            // valid node - every verdict is the single-threaded one
            if let Item::Tag(200, inner) = &item {
                if let Item::Array(xs) = &**inner {
                    if xs.len() >= 3 {
                        let mut sw = xs.clone();
                        sw.swap(1, 2);
                        let bad = encode(&Item::Tag(200, Box::new(Item::Array(sw))));
                        let good = valid.clone();
                        if Envelope::try_from_cbor_data(bad.clone()).is_err() && Envelope::try_from_cbor_data(good.clone()).is_ok() {
                            ctx.eval();
                            ctx.count("two_thread_decode_stress");
                            let (b2, g2) = (bad.clone(), good.clone());
                            let t1 = std::thread::spawn(move || (0..30_000).filter(|_| Envelope::try_from_cbor_data(b2.clone()).is_ok()).count());
                            let t2 = std::thread::spawn(move || (0..30_000).filter(|_| Envelope::try_from_cbor_data(g2.clone()).is_err()).count());
                            let (a, r) = (t1.join().unwrap_or(usize::MAX), t2.join().unwrap_or(usize::MAX));
                            if a != 0 || r != 0 {
                                ctx.violation("concurrent-decode/verdict-depends-on-other-thread", &format!("with another thread decoding at the same time a misordered node was accepted {} times and a valid node rejected {} times (of 30000 each)", a, r), J::obj(vec![("misordered_hex", J::s(hex::encode(&bad))), ("valid_hex", J::s(hex::encode(&good)))]));
                            }
                        }
                    }
                }
            }
        }
        if case % 400 == 200 {
            // the same non-canonical spellings inside LARGE inputs (beyond 64 KiB / 1 MiB)
            let size = *rng.pick(&[65_500usize, 65_536, 70_000, 1_100_000]);
            let payload = Item::Tag(201, Box::new(Item::Bytes(rng.bytes(size))));
            let numbers = [Item::UInt((1u64 << 63) + 2048), Item::UInt(1u64 << 63), Item::UInt(u64::MAX - 2047), Item::UInt(1u64 << 40), Item::NInt((1u64 << 40) - 1), Item::NInt((1u64 << 32) - 1), Item::UInt(7)];
            let num = rng.pick(&numbers).clone();
            let big = Item::Tag(200, Box::new(Item::Array(vec![payload, Item::Map(vec![(Item::Tag(201, Box::new(Item::UInt(1))), Item::Tag(201, Box::new(num)))])])));
            let valid_big = encode(&big);
            judge(ctx, &valid_big, "valid:large");
            let n = count_nodes(&big);
            for q in ALL_QUIRKS {
                for target in 0..n {
                    let (b, applied) = encode_quirk(&big, target, q);
                    if applied && b != valid_big {
                        ctx.count("large_inputs_with_quirk");
                        judge(ctx, &b, &format!("quirk:large:{:?}", q));
                    }
                }
            }
        }
        if case % 50 == 0 {
            // nesting depth 32 (the property's bounded depth): wrapped^32 and node-subject^32
            let mut it = Item::Tag(201, Box::new(Item::UInt(1)));
            for _ in 0..32 {
                it = Item::Tag(200, Box::new(it));
            }
            judge(ctx, &encode(&Item::Tag(200, Box::new(it))), "deep:wrapped32");
            let mut it = Item::Tag(201, Box::new(Item::UInt(1)));
            for i in 0..32u64 {
                it = Item::Array(vec![it, Item::Map(vec![(Item::UInt(i), Item::UInt(i + 1))])]);
            }
            judge(ctx, &encode(&Item::Tag(200, Box::new(it))), "deep:nodes32");
        }
        ctx.sample(|| J::obj(vec![("case", J::i(case)), ("valid_hex", J::s(hex::encode(&valid[..valid.len().min(80)]))), ("envelope", J::s(brief(&t)))]));
    }
}

/// structural mutation entry point reused by the C16 workload (adversarially decoded envelopes)
pub fn structural_for_c16(item: &Item, rng: &mut Rng) -> (Item, String) {
    structural(item, rng)
}
