//! C10 — every recipient, and only a recipient, can open a public-key encrypted envelope.

use bc_components::{EncapsulationPrivateKey, EncapsulationPublicKey, EncapsulationScheme, Encrypter, SealedMessage, SymmetricKey};
use bc_envelope::prelude::*;

use super::c09::key_pool;
use super::common::*;
use crate::ctx::Ctx;
use crate::gen::{self, GenCfg};
use crate::json::J;
use crate::pos::{d32, tree_of};
use crate::trap;

pub struct RKey {
    pub scheme: &'static str,
    pub sk: EncapsulationPrivateKey,
    pub pk: EncapsulationPublicKey,
}

pub fn recipient_pool(per_scheme: usize) -> Vec<RKey> {
    let mut out = Vec::new();
    for (name, s) in [("X25519", EncapsulationScheme::X25519), ("MLKEM512", EncapsulationScheme::MLKEM512), ("MLKEM768", EncapsulationScheme::MLKEM768), ("MLKEM1024", EncapsulationScheme::MLKEM1024)] {
        for _ in 0..per_scheme {
            let (sk, pk) = s.keypair();
            out.push(RKey { scheme: name, sk, pk });
        }
    }
    out
}

fn strip_recipients(e: &Envelope) -> Envelope {
    let mut cur = e.clone();
    for a in e.assertions_with_predicate(known_values::HAS_RECIPIENT) {
        cur = cur.remove_assertion(a);
    }
    cur
}

pub fn run(ctx: &mut Ctx) {
    let pool = recipient_pool(4);
    let signers = key_pool(1, false);
    let total = ctx.n(16_000, 2_000_000);
    for case in ctx.cases(total) {
        ctx.begin_case(case);
        let mut rng = ctx.rng(case);
        let (_m, e) = universe(&mut rng, GenCfg::small(), case);
        // an envelope whose subject is already encrypted / elided cannot be encrypted again (C08)
        if e.is_subject_encrypted() || e.is_subject_elided() {
            continue;
        }
        // the universe may already contain hasRecipient-looking assertions; start clean
        let e = strip_recipients(&e);
        // a quarter of the envelopes already have obscured parts below the subject level
        let e = if case % 4 == 0 {
            let k0 = fresh_key(&mut rng);
            let ob = gen::obscure_random(&e, &mut rng, 2, &k0);
            if ob.is_subject_encrypted() || ob.is_subject_elided() { e } else { ctx.count("inputs_with_obscured_parts"); ob }
        } else {
            e
        };
        let t = tree_of(&e);
        ctx.nontrivial(t.shape_hash());
        let n = rng.range(1, 6);
        let mut idx: Vec<usize> = Vec::new();
        for _ in 0..n {
            idx.push(rng.below(pool.len())); // duplicates allowed
        }
        let listed: Vec<&RKey> = idx.iter().map(|&i| &pool[i]).collect();
        let unlisted: Vec<&RKey> = pool.iter().enumerate().filter(|(i, _)| !idx.contains(i)).map(|(_, k)| k).collect();
        ctx.count(&format!("recipient_list_size_{}", n));
        let replay = || J::obj(vec![("envelope_hex", jhex(&e)), ("recipients", J::Arr(listed.iter().map(|k| J::s(k.scheme)).collect()))]);

        // route A: encrypt_subject_to_recipients
        let encs: Vec<&dyn Encrypter> = listed.iter().map(|k| &k.pk as &dyn Encrypter).collect();
        ctx.eval();
        let x = match trap::guard(|| if encs.len() == 1 && case % 2 == 0 { e.encrypt_subject_to_recipient(encs[0]) } else { e.encrypt_subject_to_recipients(&encs) }) {
            Ok(Ok(x)) => x,
            Ok(Err(err)) => {
                ctx.violation("encrypt_subject_to_recipients/err", &format!("{}", err), replay());
                continue;
            }
            Err(p) => {
                ctx.violation(&format!("encrypt_subject_to_recipients/panic/{}", p.signature()), &format!("{:?}", p), replay());
                continue;
            }
        };
        if d32(&x.subject()) != d32(&e.subject()) || !x.is_subject_encrypted() {
            ctx.violation("subject-digest", "the encrypted envelope does not keep the original subject's digest / is not encrypted", replay());
        }
        check_spec(ctx, &x, "encrypted to recipients");
        match trap::guard(|| x.recipients()) {
            Ok(Ok(r)) => {
                let distinct = x.assertions_with_predicate(known_values::HAS_RECIPIENT).len();
                if r.len() != distinct || r.is_empty() {
                    ctx.violation("recipients/count", &format!("recipients() returned {} sealed messages for {} hasRecipient assertions", r.len(), distinct), replay());
                }
            }
            Ok(Err(err)) => ctx.violation("recipients/err", &format!("{}", err), replay()),
            Err(p) => ctx.violation(&format!("recipients/panic/{}", p.signature()), &format!("{:?}", p), replay()),
        }
        for k in &listed {
            ctx.eval();
            ctx.count("listed_key_checks");
            ctx.count(&format!("scheme_{}", k.scheme));
            match trap::guard(|| x.decrypt_subject_to_recipient(&k.sk)) {
                Ok(Ok(d)) => {
                    if !d.subject().is_identical_to(&e.subject()) || crate::pos::diff(&tree_of(&d.subject()), &tree_of(&e.subject())).is_some() {
                        ctx.violation("listed/wrong-subject", &format!("recipient ({}) decrypted something other than the original subject", k.scheme), replay());
                    }
                    if !strip_recipients(&d).is_identical_to(&e) {
                        ctx.violation("listed/not-original", "decrypted envelope minus hasRecipient assertions is not the original", replay());
                    }
                }
                Ok(Err(err)) => ctx.violation("listed/cannot-decrypt", &format!("listed recipient ({}) got an error: {}", k.scheme, err), replay()),
                Err(p) => ctx.violation(&format!("listed/panic/{}", p.signature()), &format!("{:?}", p), replay()),
            }
        }
        // >= 2 unlisted keys of every scheme
        let mut per_scheme = std::collections::HashMap::new();
        for k in &unlisted {
            let c = per_scheme.entry(k.scheme).or_insert(0);
            if *c >= 2 {
                continue;
            }
            *c += 1;
            ctx.eval();
            ctx.count("unlisted_key_checks");
            match trap::guard(|| x.decrypt_subject_to_recipient(&k.sk)) {
                Ok(Err(_)) => {}
                Ok(Ok(_)) => ctx.violation("unlisted/decrypted", &format!("an unlisted key ({}) decrypted the envelope", k.scheme), replay()),
                Err(p) => ctx.violation(&format!("unlisted/panic/{}", p.signature()), &format!("{:?}", p), replay()),
            }
        }

        // route B: explicit content key, recipients added one at a time; earlier ones keep access
        let ck = SymmetricKey::new();
        let mut y = e.encrypt_subject(&ck).unwrap();
        for (i, k) in listed.iter().enumerate() {
            y = y.add_recipient(&k.pk, &ck);
            for prev in &listed[..=i] {
                ctx.eval();
                ctx.count("after_add_recipient_checks");
                match trap::guard(|| y.decrypt_subject_to_recipient(&prev.sk)) {
                    Ok(Ok(d)) => {
                        if !d.subject().is_identical_to(&e.subject()) {
                            ctx.violation("add_recipient/wrong-subject", "earlier recipient decrypts something else after add_recipient", replay());
                        }
                    }
                    Ok(Err(err)) => ctx.violation("add_recipient/earlier-lost-access", &format!("after adding recipient #{} an earlier recipient ({}) cannot decrypt: {}", i, prev.scheme, err), replay()),
                    Err(p) => ctx.violation(&format!("add_recipient/panic/{}", p.signature()), &format!("{:?}", p), replay()),
                }
            }
        }
        if d32(&y.subject()) != d32(&e.subject()) {
            ctx.violation("add_recipient/subject-digest", "subject digest changed", replay());
        }
        // decorated / obscured hasRecipient assertions: a listed recipient whose assertion is salted
        // still opens it; an obscured sealed message for someone else does not disturb the others
        if case % 2 == 0 {
            let extra = &pool[rng.below(pool.len())];
            let sealed = SealedMessage::new(dcbor::CBOREncodable::to_cbor_data(&ck), &extra.pk);
            let z = y.add_assertion_salted(known_values::HAS_RECIPIENT, sealed, true);
            ctx.eval();
            ctx.count("salted_recipient_assertion");
            match trap::guard(|| (z.recipients().map(|r| r.len()), z.decrypt_subject_to_recipient(&extra.sk), z.decrypt_subject_to_recipient(&listed[0].sk))) {
                Ok((_, dx, d0)) => {
                    if dx.is_err() {
                        ctx.violation("salted-recipient/cannot-decrypt", "a recipient listed through a salted hasRecipient assertion cannot decrypt", jhex(&z));
                    }
                    if d0.is_err() {
                        ctx.violation("salted-recipient/others-lost-access", "another recipient lost access", jhex(&z));
                    }
                }
                Err(p) => ctx.violation(&format!("salted-recipient/panic/{}", p.signature()), &format!("{:?}", p), jhex(&z)),
            }
        } else if listed.len() >= 2 {
            // elide the sealed message of the last recipient
            let asr = y.assertions_with_predicate(known_values::HAS_RECIPIENT);
            let victim = asr[rng.below(asr.len())].as_object().unwrap();
            let z = y.elide_removing_target(&victim);
            ctx.eval();
            ctx.count("obscured_recipient_object");
            let mut opened = 0;
            for k in &listed {
                match trap::guard(|| z.decrypt_subject_to_recipient(&k.sk)) {
                    Ok(Ok(_)) => opened += 1,
                    Ok(Err(_)) => {}
                    Err(p) => ctx.violation(&format!("obscured-recipient/panic/{}", p.signature()), &format!("{:?}", p), jhex(&z)),
                }
            }
            let distinct = asr.len();
            if distinct >= 2 && opened == 0 {
                ctx.violation("obscured-recipient/all-lost-access", "eliding one recipient's sealed message locked out every recipient", jhex(&z));
            }
        }

        // the same envelope with (a) the 'hasRecipient' PREDICATE obscured in every assertion (same digest) and
        // (b) every sealed-message object carrying an assertion of its own: every listed recipient still opens it,
        // an unlisted key still does not
        {
            let pred = Envelope::new(known_values::HAS_RECIPIENT);
            let act = *rng.pick(&gen::ACTS);
            let k9 = fresh_key(&mut rng);
            let pred_obscured = y.elide_removing_set_with_action(&gen::digest_set(&[d32(&pred)]), &gen::action(act, &k9));
            let mut decorated = y.clone();
            for a in y.assertions_with_predicate(known_values::HAS_RECIPIENT) {
                if let (Some(p), Some(o)) = (a.as_predicate(), a.as_object()) {
                    if !o.is_obscured() && a.assertions().is_empty() {
                        decorated = decorated.remove_assertion(a.clone()).add_assertion(p, o.add_assertion(known_values::NOTE, "for you"));
                    }
                }
            }
            // (when the known value 'hasRecipient' also occurs in the original envelope itself - e.g. as its subject -
            // obscuring that digest would hit the content too: not the scenario meant here)
            let clash = tree_of(&e).all_digests().contains(&d32(&pred));
            for (label, z) in [("predicate-obscured", pred_obscured), ("object-decorated", decorated)] {
                if clash && label == "predicate-obscured" {
                    continue;
                }
                ctx.eval();
                ctx.count("reshaped_recipient_assertions");
                for k in &listed {
                    match trap::guard(|| z.decrypt_subject_to_recipient(&k.sk)) {
                        Ok(Ok(d)) => {
                            if d32(&d.subject()) != d32(&e.subject()) {
                                ctx.violation(&format!("reshaped/{}/not-original", label), "decrypted subject is not the original subject", jhex(&z));
                            }
                        }
                        Ok(Err(err)) => ctx.violation(&format!("reshaped/{}/cannot-decrypt", label), &format!("listed recipient ({}) got an error: {}", k.scheme, err), jhex(&z)),
                        Err(p) => ctx.violation(&format!("reshaped/{}/panic/{}", label, p.signature()), &format!("{:?}", p), jhex(&z)),
                    }
                }
                if let Some(u) = unlisted.first() {
                    if let Ok(Ok(_)) = trap::guard(|| z.decrypt_subject_to_recipient(&u.sk)) {
                        ctx.violation(&format!("reshaped/{}/unlisted-decrypted", label), "an unlisted key opened the envelope", jhex(&z));
                    }
                }
            }
        }
        // the *_opt entry points (fixed nonce): same access rules
        {
            ctx.eval();
            ctx.count("opt_entry_points");
            let nonce = bc_components::Nonce::from_data([7u8; 12]);
            let encs2: Vec<&dyn Encrypter> = listed.iter().map(|k| &k.pk as &dyn Encrypter).collect();
            let ck2 = SymmetricKey::new();
            let use_batch = rng.chance(1, 2);
            match trap::guard(|| {
                if use_batch {
                    e.encrypt_subject_to_recipients_opt(&encs2, Some(&nonce))
                } else {
                    // one recipient at a time through add_recipient_opt / encrypt_subject_to_recipient_opt
                    let mut x = if encs2.len() == 1 { return e.encrypt_subject_to_recipient_opt(encs2[0], Some(&nonce)) } else { e.encrypt_subject(&ck2)? };
                    for k in &listed {
                        x = x.add_recipient_opt(&k.pk, &ck2, Some(&nonce));
                    }
                    Ok(x)
                }
            }) {
                Ok(Ok(x)) => {
                    for k in &listed {
                        match x.decrypt_subject_to_recipient(&k.sk) {
                            Ok(d) => {
                                if !d.subject().is_identical_to(&e.subject()) {
                                    ctx.violation("opt/wrong-subject", "recipient decrypted something else through the _opt entry points", replay());
                                }
                            }
                            Err(err) => ctx.violation("opt/cannot-decrypt", &format!("listed recipient ({}) cannot decrypt an envelope made with the _opt entry points: {}", k.scheme, err), replay()),
                        }
                    }
                    if let Some(u) = unlisted.first() {
                        if x.decrypt_subject_to_recipient(&u.sk).is_ok() {
                            ctx.violation("opt/unlisted-decrypted", "an unlisted key decrypted", replay());
                        }
                    }
                }
                Ok(Err(err)) => ctx.violation("opt/err", &format!("{}", err), replay()),
                Err(p) => ctx.violation(&format!("opt/panic/{}", p.signature()), &format!("{:?}", p), replay()),
            }
        }
        // copies of the same (digest-equal) envelope back to back: one with a recipient's sealed message
        // elided, then the full one - what each key can open depends on the copy in hand, not on history
        if listed.len() >= 2 {
            let asr = y.assertions_with_predicate(known_values::HAS_RECIPIENT);
            if asr.len() >= 2 {
                ctx.eval();
                ctx.count("digest_equal_copies_back_to_back");
                let victim_a = asr[rng.below(asr.len())].clone();
                let redacted = y.elide_removing_target(&victim_a.subject().as_object().unwrap());
                let count = |x: &Envelope| trap::guard(|| x.recipients().map(|r| r.len()).unwrap_or(usize::MAX));
                let n_red = count(&redacted);
                let n_full = count(&y);
                let n_red2 = count(&redacted);
                if let (Ok(a), Ok(b), Ok(c)) = (&n_red, &n_full, &n_red2) {
                    if *a != asr.len() - 1 || *b != asr.len() || *c != *a {
                        ctx.violation("recipients/depends-on-history", &format!("recipients() gave {} / {} / {} sealed messages for redacted / full / redacted copies of an envelope with {}", a, b, c, asr.len()), jhex(&y));
                    }
                }
                for k in &listed {
                    let r1 = trap::guard(|| redacted.decrypt_subject_to_recipient(&k.sk).is_ok());
                    let r2 = trap::guard(|| y.decrypt_subject_to_recipient(&k.sk).is_ok());
                    if !matches!(r2, Ok(true)) {
                        ctx.violation("listed/cannot-decrypt-after-redacted-copy", &format!("listed recipient ({}) cannot open the full envelope right after a redacted copy was examined", k.scheme), jhex(&y));
                    }
                    let _ = r1;
                }
            }
        }
        // a long recipient list now and then (every listed key still opens it)
        if case % 600 == 7 {
            let n_big = *rng.pick(&[65usize, 70, 130, 260]);
            ctx.count("big_recipient_lists");
            let keys: Vec<(EncapsulationPrivateKey, EncapsulationPublicKey)> = (0..n_big).map(|_| EncapsulationScheme::X25519.keypair()).collect();
            let ck3 = SymmetricKey::new();
            let mut big = e.encrypt_subject(&ck3).unwrap();
            for (_, pk) in &keys {
                big = big.add_recipient(pk, &ck3);
            }
            for (i, (sk, _)) in keys.iter().enumerate() {
                ctx.eval();
                if !matches!(trap::guard(|| big.decrypt_subject_to_recipient(sk).map(|d| d.subject().is_identical_to(&e.subject()))), Ok(Ok(true))) {
                    ctx.violation("listed/cannot-decrypt-long-list", &format!("recipient #{} of {} cannot open the envelope", i, n_big), replay());
                    break;
                }
            }
        }
        // wrap-and-encrypt form
        let k = listed[0];
        ctx.eval();
        ctx.count("encrypt_to_recipient_roundtrip");
        match trap::guard(|| {
            let w = e.encrypt_to_recipient(&k.pk);
            (w.decrypt_to_recipient(&k.sk), unlisted.first().map(|u| w.decrypt_to_recipient(&u.sk).is_ok()))
        }) {
            Ok((Ok(d), other)) => {
                if !d.is_identical_to(&e) || env_bytes(&d) != env_bytes(&e) {
                    ctx.violation("encrypt_to_recipient/not-identical", "decrypt_to_recipient(encrypt_to_recipient(E)) is not E", replay());
                }
                if other == Some(true) {
                    ctx.violation("encrypt_to_recipient/unlisted-decrypted", "an unlisted key opened the envelope", replay());
                }
            }
            Ok((Err(err), _)) => ctx.violation("encrypt_to_recipient/err", &format!("{}", err), replay()),
            Err(p) => ctx.violation(&format!("encrypt_to_recipient/panic/{}", p.signature()), &format!("{:?}", p), replay()),
        }

        // seal / unseal over sender x recipient scheme pairs
        let s = &signers[rng.below(signers.len())];
        let s2 = loop {
            let c = &signers[rng.below(signers.len())];
            if !std::ptr::eq(c, s) {
                break c;
            }
        };
        ctx.eval();
        ctx.count("seal_unseal");
        ctx.count(&format!("seal_sender_{}", s.scheme));
        let sealed = match trap::guard(|| if s.options().is_none() && case % 2 == 0 { e.seal(&s.sk, &k.pk) } else { e.seal_opt(&s.sk, &k.pk, s.options()) }) {
            Ok(x) => x,
            Err(p) => {
                ctx.violation(&format!("seal/panic/{}", p.signature()), &format!("{:?}", p), replay());
                continue;
            }
        };
        match trap::guard(|| (sealed.unseal(&s.pk, &k.sk), sealed.unseal(&s2.pk, &k.sk).is_ok(), unlisted.first().map(|u| sealed.unseal(&s.pk, &u.sk).is_ok()))) {
            Ok((good, wrong_sender, wrong_recipient)) => {
                match good {
                    Ok(u) => {
                        if !u.is_identical_to(&e) {
                            ctx.violation("unseal/not-identical", "unseal(seal(E)) is not E", replay());
                        }
                    }
                    Err(err) => {
                        // the known ssh-key ECDSA self-verification failure (C09 known finding) shows here too
                        if s.scheme.starts_with("SshEcdsa") && format!("{}", err).contains("Unexpected signature object type") {
                            ctx.count("seal_skipped_dependency_ssh_ecdsa");
                        } else {
                            ctx.violation("unseal/err", &format!("sender {} recipient {}: {}", s.scheme, k.scheme, err), replay());
                        }
                    }
                }
                if wrong_sender {
                    ctx.violation("unseal/wrong-sender-accepted", "unseal succeeded with another sender key", replay());
                }
                if wrong_recipient == Some(true) {
                    ctx.violation("unseal/wrong-recipient-accepted", "unseal succeeded with another recipient key", replay());
                }
            }
            Err(p) => ctx.violation(&format!("unseal/panic/{}", p.signature()), &format!("{:?}", p), replay()),
        }
        // a sealed envelope addressed to SEVERAL recipients (sign, then wrap-and-encrypt to the list): each of them
        // unseals it to the original
        if listed.len() >= 2 && !s.scheme.starts_with("SshEcdsa") {
            ctx.eval();
            ctx.count("unseal_with_several_recipients");
            match trap::guard(|| {
                let multi = e.sign_opt(&s.sk, s.options()).wrap_envelope().encrypt_subject_to_recipients(&encs)?;
                let mut out = Vec::new();
                for k in &listed {
                    out.push(multi.unseal(&s.pk, &k.sk));
                }
                Ok::<_, anyhow::Error>((out, unlisted.first().map(|u| multi.unseal(&s.pk, &u.sk).is_ok()), multi.unseal(&s2.pk, &listed[0].sk).is_ok()))
            }) {
                Ok(Ok((results, wrong_recipient, wrong_sender))) => {
                    for (k, r) in listed.iter().zip(results) {
                        match r {
                            Ok(u) if u.is_identical_to(&e) => {}
                            Ok(_) => ctx.violation("unseal-multi/not-identical", "unseal by one of several recipients is not the original", replay()),
                            Err(err) => ctx.violation("unseal-multi/err", &format!("one of several recipients ({}) cannot unseal: {}", k.scheme, err), replay()),
                        }
                    }
                    if wrong_recipient == Some(true) || wrong_sender {
                        ctx.violation("unseal-multi/wrong-key-accepted", "unseal succeeded with an unlisted recipient or another sender", replay());
                    }
                }
                Ok(Err(err)) => ctx.violation("unseal-multi/encrypt-err", &format!("{}", err), replay()),
                Err(p) => ctx.violation(&format!("unseal-multi/panic/{}", p.signature()), &format!("{:?}", p), replay()),
            }
        }
        // forwarding: a recipient opens the envelope (the hasRecipient assertions stay on it) and encrypts it
        // again to somebody else; every NEW recipient opens it to the original
        if !unlisted.is_empty() {
            ctx.eval();
            ctx.count("forwarded_envelopes");
            let nn = rng.range(1, unlisted.len().min(3));
            let newr: Vec<&RKey> = unlisted[..nn].to_vec();
            let newe: Vec<&dyn Encrypter> = newr.iter().map(|k| &k.pk as &dyn Encrypter).collect();
            match trap::guard(|| {
                let opened = x.decrypt_subject_to_recipient(&listed[0].sk)?;
                let fwd = if newe.len() == 1 && case % 2 == 1 { opened.encrypt_subject_to_recipient(newe[0])? } else { opened.encrypt_subject_to_recipients(&newe)? };
                let mut out = Vec::new();
                for k in &newr {
                    out.push(fwd.decrypt_subject_to_recipient(&k.sk));
                }
                Ok::<_, anyhow::Error>(out)
            }) {
                Ok(Ok(results)) => {
                    for (k, r) in newr.iter().zip(results) {
                        match r {
                            Ok(d) if strip_recipients(&d).is_identical_to(&e) => {}
                            Ok(_) => ctx.violation("forward/not-original", "a forwarded envelope opened by a new recipient (minus hasRecipient assertions) is not the original", replay()),
                            Err(err) => ctx.violation("forward/cannot-decrypt", &format!("new recipient ({}) of a forwarded envelope got an error: {}", k.scheme, err), replay()),
                        }
                    }
                }
                Ok(Err(err)) => ctx.violation("forward/err", &format!("opening and re-encrypting to new recipients failed: {}", err), replay()),
                Err(p) => ctx.violation(&format!("forward/panic/{}", p.signature()), &format!("{:?}", p), replay()),
            }
        }
        ctx.sample(|| J::obj(vec![("case", J::i(case)), ("envelope", J::s(brief(&t))), ("recipients", J::Arr(listed.iter().map(|k| J::s(k.scheme)).collect())), ("sender", J::s(s.scheme))]));
        let _ = gen::root_digest(&e);
    }
}
