//! C19 — attachments and type assertions are retrievable exactly as added.

use std::collections::{BTreeSet, HashSet};

use bc_envelope::prelude::*;
use bc_envelope::{Attachments, EnvelopeError};

use super::common::*;
use crate::ctx::Ctx;
use crate::gen::{self, Gen, GenCfg, Route};
use crate::json::J;
use crate::pos::{d32, tree_of};
use crate::spec::D32;
use crate::trap;

const VENDORS: [&str; 6] = ["com.example", "org.acme", "com.example.sub", "", "com.Example", "ORG.ACME"];
const CONFORMS: [&str; 5] = ["https://example.com/v1", "https://example.com/v2", "urn:x", "", "URN:X"];

fn err_kind(e: &anyhow::Error) -> String {
    match e.downcast_ref::<EnvelopeError>() {
        Some(k) => format!("{:?}", k),
        None => "other".into(),
    }
}

pub fn run(ctx: &mut Ctx) {
    let total = ctx.n(80_000, 5_000_000);
    for case in ctx.cases(total) {
        ctx.begin_case(case);
        let mut rng = ctx.rng(case);
        let (_m, base) = universe(&mut rng, GenCfg::small(), case);
        let base = if base.is_assertion() || base.is_obscured() { Envelope::new("holder") } else { base };
        // the random holder may carry 'attachment' assertions with arbitrary objects of its own (the
        // generator uses known-value predicates freely): start without them
        let base = {
            let mut b = base.clone();
            for a in base.assertions_with_predicate(known_values::ATTACHMENT) {
                b = b.remove_assertion(a);
            }
            b
        };
        // a third of the holders already have obscured parts (never the root itself)
        let base_plain = base.clone();
        let base = if case % 3 == 0 {
            let k0 = fresh_key(&mut rng);
            let ob = gen::obscure_random(&base, &mut rng, 2, &k0);
            if ob.is_obscured() { base } else { ctx.count("holders_with_obscured_parts"); ob }
        } else {
            base
        };
        // attachments: multiset of (payload, vendor, conformsTo)
        let k = rng.below(6);
        let mut added: Vec<(Envelope, String, Option<String>)> = Vec::new();
        let mut e = base.clone();
        for _ in 0..k {
            let payload = if !added.is_empty() && rng.chance(1, 5) {
                added[rng.below(added.len())].0.clone()
            } else {
                let m = {
                    let mut g = Gen::new(&mut rng, GenCfg::small(), case);
                    g.top()
                };
                gen::build(&m, Route::Plain, &mut rng)
            };
            let vendor = if !added.is_empty() && rng.chance(1, 3) { added[rng.below(added.len())].1.clone() } else { rng.pick(&VENDORS).to_string() };
            let conforms = if rng.chance(1, 2) { Some(rng.pick(&CONFORMS).to_string()) } else { None };
            // payloads may themselves be (partly) obscured
            let payload = match rng.below(10) {
                0 => payload.elide(),
                1 => payload.compress().unwrap_or(payload),
                _ => payload,
            };
            // one attachment (digest) in one form only: the same attachment once plain and once with an
            // obscured payload is the same assertion twice, and which form stays is order dependent
            let ad = d32(&Envelope::new_attachment(payload.clone(), &vendor, conforms.as_deref()));
            if added.iter().any(|(p, v, c)| d32(&Envelope::new_attachment(p.clone(), v, c.as_deref())) == ad && !p.is_identical_to(&payload)) {
                continue;
            }
            e = match rng.below(2) {
                0 => e.add_attachment(payload.clone(), &vendor, conforms.as_deref()),
                _ => e.add_assertion_envelope(Envelope::new_attachment(payload.clone(), &vendor, conforms.as_deref())).unwrap(),
            };
            added.push((payload, vendor, conforms));
        }
        // reference set keyed by (payload digest, vendor, conformsTo)
        let key_of = |p: &Envelope, v: &str, c: &Option<String>| -> (D32, String, Option<String>) { (d32(p), v.to_string(), c.clone()) };
        let reference: BTreeSet<(D32, String, Option<String>)> = added.iter().map(|(p, v, c)| key_of(p, v, c)).collect();
        ctx.nontrivial((reference.len() as u64) << 32 | tree_of(&e).shape_hash() & 0xffff_ffff);
        ctx.count(&format!("attachments_{}", reference.len()));
        let replay = || J::obj(vec![("envelope_hex", jhex(&e)), ("added", J::Arr(added.iter().map(|(p, v, c)| J::s(format!("{} {:?} {:?}", hex::encode(&d32(p)[..4]), v, c))).collect()))]);

        // attachments() returns exactly the added set with identical parts
        ctx.eval();
        ctx.count("attachments_query");
        match trap::guard(|| e.attachments()) {
            Err(p) => ctx.violation(&format!("attachments/panic/{}", p.signature()), &format!("{:?}", p), replay()),
            Ok(Err(err)) => ctx.violation("attachments/err", &format!("{}", err), replay()),
            Ok(Ok(list)) => {
                let mut got: BTreeSet<(D32, String, Option<String>)> = BTreeSet::new();
                for a in &list {
                    match (a.attachment_payload(), a.attachment_vendor(), a.attachment_conforms_to()) {
                        (Ok(p), Ok(v), Ok(c)) => {
                            got.insert((d32(&p), v, c));
                        }
                        _ => ctx.violation("attachments/parts-unreadable", "an attachment's payload/vendor/conformsTo could not be read back", replay()),
                    }
                }
                if got != reference || list.len() != reference.len() {
                    ctx.violation("attachments/set-differs", &format!("attachments() returned {} (distinct {}), reference {}", list.len(), got.len(), reference.len()), replay());
                }
                // payload identical (not merely equivalent)
                for a in &list {
                    if let Ok(p) = a.attachment_payload() {
                        if !added.iter().any(|(q, _, _)| q.is_identical_to(&p)) {
                            ctx.violation("attachments/payload-not-identical", "a returned payload is not identical to any added payload", replay());
                        }
                    }
                }
            }
        }
        // the Attachments container: adding the same attachments through it gives the same envelope,
        // and reading them back from the envelope gives the same container
        {
            ctx.eval();
            ctx.count("container_checks");
            let mut cont = Attachments::new();
            for (p, v, c) in &added {
                cont.add(p.clone(), v.as_str(), c.as_deref());
            }
            match trap::guard(|| (cont.add_to_envelope(base.clone()), Attachments::try_from_envelope(&e))) {
                Ok((via, back)) => {
                    // applying the container to an envelope that already carries (some of) its attachments
                    // changes nothing
                    if env_bytes(&cont.add_to_envelope(e.clone())) != env_bytes(&e) || env_bytes(&cont.add_to_envelope(via.clone())) != env_bytes(&via) {
                        ctx.violation("container/reapply-changes", "Attachments::add_to_envelope onto an envelope that already holds the attachments changed it", replay());
                    }
                    if env_bytes(&via) != env_bytes(&e) {
                        ctx.violation("container/add_to_envelope-differs", "Attachments::add_to_envelope gives another envelope than add_attachment", replay());
                    }
                    match back {
                        Ok(b) => {
                            let want: BTreeSet<D32> = added.iter().map(|(p, v, c)| d32(&Envelope::new_attachment(p.clone(), v, c.as_deref()))).collect();
                            let all_present = want.iter().all(|d| b.get(&bc_components::Digest::from_data(*d)).is_some());
                            if !all_present || b.is_empty() != want.is_empty() || b != cont {
                                ctx.violation("container/try_from_envelope-differs", "Attachments::try_from_envelope does not give back the added attachments", replay());
                            }
                        }
                        Err(err) => ctx.violation("container/try_from_envelope-err", &format!("{}", err), replay()),
                    }
                }
                Err(p) => ctx.violation(&format!("container/panic/{}", p.signature()), &format!("{:?}", p), replay()),
            }
            // the same through the Attachable interface of a type that owns a container; then removing one
            // attachment takes exactly that one away, clearing takes all
            struct Owner(Attachments);
            impl Attachable for Owner {
                fn attachments(&self) -> &Attachments {
                    &self.0
                }
                fn attachments_mut(&mut self) -> &mut Attachments {
                    &mut self.0
                }
            }
            let r = trap::guard(|| {
                let mut o = Owner(Attachments::default());
                let mut ok = !o.has_attachments();
                for (p, v, c) in &added {
                    o.add_attachment(p.clone(), v.as_str(), c.as_deref());
                }
                ok &= o.has_attachments() != added.is_empty();
                ok &= env_bytes(&o.attachments().add_to_envelope(base.clone())) == env_bytes(&e);
                for (p, v, c) in &added {
                    let d = bc_components::DigestProvider::digest(&Envelope::new_attachment(p.clone(), v, c.as_deref())).into_owned();
                    ok &= o.get_attachment(&d).map(|a| d32(a) == *d.data()).unwrap_or(false);
                }
                if let Some((p, v, c)) = added.first() {
                    let gone = Envelope::new_attachment(p.clone(), v, c.as_deref());
                    let d = bc_components::DigestProvider::digest(&gone).into_owned();
                    let removed = o.remove_attachment(&d);
                    ok &= removed.map(|x| env_bytes(&x) == env_bytes(&gone)).unwrap_or(false);
                    ok &= o.get_attachment(&d).is_none() && o.remove_attachment(&d).is_none();
                    // what is left is everything but that one
                    let rest = o.attachments().add_to_envelope(base.clone());
                    ok &= env_bytes(&rest) == env_bytes(&e.remove_assertion(gone));
                }
                o.clear_attachments();
                ok &= !o.has_attachments() && env_bytes(&o.attachments().add_to_envelope(base.clone())) == env_bytes(&base);
                ok
            });
            match r {
                Ok(true) => {}
                Ok(false) => ctx.violation("container/attachable-interface", "add / get / remove / clear / has_attachments through the Attachable interface disagree with the attachments that were added", replay()),
                Err(p) => ctx.violation(&format!("container/panic/{}", p.signature()), &format!("{:?}", p), replay()),
            }
        }
        // filters: every (vendor?, conformsTo?) combination incl. non-existent values
        let mut vs: Vec<Option<&str>> = vec![None, Some("no.such.vendor")];
        vs.extend(VENDORS.iter().map(|v| Some(*v)));
        let mut cs: Vec<Option<&str>> = vec![None, Some("no-such-format")];
        cs.extend(CONFORMS.iter().map(|c| Some(*c)));
        for v in &vs {
            for c in &cs {
                ctx.eval();
                ctx.count("filter_queries");
                let want: BTreeSet<(D32, String, Option<String>)> = reference.iter().filter(|(_, rv, rc)| v.map_or(true, |v| v == rv) && c.map_or(true, |c| rc.as_deref() == Some(c))).cloned().collect();
                match trap::guard(|| e.attachments_with_vendor_and_conforms_to(*v, *c)) {
                    Err(p) => ctx.violation(&format!("filter/panic/{}", p.signature()), &format!("{:?}", p), replay()),
                    Ok(Err(err)) => ctx.violation("filter/err", &format!("{}", err), replay()),
                    Ok(Ok(list)) => {
                        let got: BTreeSet<(D32, String, Option<String>)> = list.iter().filter_map(|a| Some((d32(&a.attachment_payload().ok()?), a.attachment_vendor().ok()?, a.attachment_conforms_to().ok()?))).collect();
                        if got != want || list.len() != want.len() {
                            ctx.violation("filter/set-differs", &format!("filter vendor={:?} conformsTo={:?}: returned {}, reference {}", v, c, list.len(), want.len()), replay());
                        }
                    }
                }
                // single-result form
                match trap::guard(|| e.attachment_with_vendor_and_conforms_to(*v, *c)) {
                    Err(p) => ctx.violation(&format!("single/panic/{}", p.signature()), &format!("{:?}", p), replay()),
                    Ok(r) => {
                        let ok = match (want.len(), &r) {
                            (0, Err(err)) => err_kind(err) == "NonexistentAttachment",
                            (1, Ok(a)) => a.attachment_payload().map(|p| d32(&p)).ok() == Some(want.iter().next().unwrap().0),
                            (n, Err(err)) if n > 1 => err_kind(err) == "AmbiguousAttachment",
                            _ => false,
                        };
                        ctx.count(match want.len() {
                            0 => "single_none",
                            1 => "single_one",
                            _ => "single_several",
                        });
                        if !ok {
                            ctx.violation("single/wrong", &format!("{} matching attachments but the single-result form returned {:?}", want.len(), r.as_ref().map(|_| "Ok").map_err(|e| e.to_string())), replay());
                        }
                    }
                }
            }
        }
        // malformed attachment assertions are reported invalid
        if let Some((p, v, c)) = added.first() {
            let good = Envelope::new_attachment(p.clone(), v, c.as_deref());
            let obj = good.as_object().unwrap();
            let vend_a = obj.assertion_with_predicate(known_values::VENDOR).unwrap();
            let mut bad: Vec<(&str, Envelope)> = vec![
                ("vendor-removed", obj.remove_assertion(vend_a.clone())),
                ("vendor-duplicated", obj.add_assertion(known_values::VENDOR, "second.vendor")),
                ("extra-assertion", obj.add_assertion("extra", 1)),
                ("vendor-not-string", obj.remove_assertion(vend_a).add_assertion(known_values::VENDOR, 42)),
            ];
            if !p.subject().is_wrapped() {
                bad.push(("payload-not-wrapped", p.clone().add_assertion(known_values::VENDOR, v.clone())));
            }
            if c.is_some() {
                bad.push(("conformsTo-duplicated", obj.add_assertion(known_values::CONFORMS_TO, "another")));
            }
            for (label, o) in bad {
                ctx.eval();
                ctx.count("malformed_attachments");
                let a = Envelope::new_assertion(known_values::ATTACHMENT, o);
                let holder = base.add_assertion_envelope(a.clone()).unwrap();
                // ... also by the FILTERED queries of an envelope that holds it next to good ones, whether or
                // not the filter would select the malformed one
                let holder2 = e.add_assertion_envelope(a.clone()).unwrap_or(holder.clone());
                for (fv, fc) in [(None, None), (Some("no.such.vendor"), None), (None, Some("no-such-format")), (Some(v.as_str()), None), (Some("second.vendor"), None)] {
                    ctx.count("filtered_queries_over_malformed");
                    match trap::guard(|| (holder2.attachments_with_vendor_and_conforms_to(fv, fc).is_ok(), holder2.attachment_with_vendor_and_conforms_to(fv, fc).map(|_| ()))) {
                        Ok((list_ok, single)) => {
                            let single_invalid = match &single {
                                Ok(()) => false,
                                Err(err) => !matches!(err.downcast_ref::<bc_envelope::EnvelopeError>(), Some(bc_envelope::EnvelopeError::NonexistentAttachment) | Some(bc_envelope::EnvelopeError::AmbiguousAttachment)),
                            };
                            if list_ok || !single_invalid {
                                ctx.violation(&format!("malformed-accepted/filtered/{}", label), &format!("an envelope holding a malformed attachment ({}) answered a filtered query (vendor={:?} conformsTo={:?}) without reporting it invalid", label, fv, fc), jhex(&holder2));
                            }
                        }
                        Err(p) => ctx.violation(&format!("malformed/panic/{}", p.signature()), &format!("{:?}", p), jhex(&holder2)),
                    }
                }
                let r1 = trap::guard(|| a.validate_attachment());
                let r2 = trap::guard(|| holder.attachments());
                match (r1, r2) {
                    (Ok(Err(_)), Ok(Err(_))) => {}
                    (Err(p), _) | (_, Err(p)) => ctx.violation(&format!("malformed/panic/{}", p.signature()), &format!("{:?}", p), jhex(&a)),
                    (a1, a2) => ctx.violation(&format!("malformed-accepted/{}", label), &format!("malformed attachment ({}) accepted: validate={:?} attachments()={:?}", label, a1.map(|r| r.is_ok()), a2.map(|r| r.is_ok())), jhex(&a)),
                }
            }
        }

        // a well-formed attachment assertion that carries an assertion of its own (salted): whatever the queries make of
        // it (the unchanged library reports it invalid), nothing they RETURN may be unreadable as an attachment or
        // fail to match the filter
        if let Some((p, v, c)) = added.first() {
            let decorated = Envelope::new_attachment(p.clone(), v, c.as_deref()).add_salt();
            if let Ok(holder3) = e.add_assertion_envelope(decorated) {
                ctx.eval();
                ctx.count("decorated_attachment_assertions");
                for (fv, fc) in [(None, None), (Some(v.as_str()), None), (Some("no.such.vendor"), None), (None, Some("no-such-format"))] {
                    match trap::guard(|| holder3.attachments_with_vendor_and_conforms_to(fv, fc)) {
                        Ok(Ok(list)) => {
                            for a in list {
                                let readable = a.attachment_payload().is_ok() && a.attachment_vendor().is_ok() && a.attachment_conforms_to().is_ok();
                                let matches = fv.map(|x| a.attachment_vendor().ok().as_deref() == Some(x)).unwrap_or(true) && fc.map(|x| a.attachment_conforms_to().ok().flatten().as_deref() == Some(x)).unwrap_or(true);
                                if !readable || !matches {
                                    ctx.violation("filter/returned-unreadable-or-unmatched", &format!("a query (vendor={:?} conformsTo={:?}) returned an element that cannot be read as an attachment or does not match the filter", fv, fc), jhex(&holder3));
                                }
                            }
                        }
                        Ok(Err(_)) => {}
                        Err(pn) => ctx.violation(&format!("decorated-attachment/panic/{}", pn.signature()), &format!("{:?}", pn), jhex(&holder3)),
                    }
                }
            }
        }
        // types
        let nt = rng.below(4);
        let mut kv_types: HashSet<u64> = HashSet::new();
        let mut other_types: Vec<Envelope> = Vec::new();
        let mut te = base_plain.clone();
        for _ in 0..nt {
            if rng.chance(1, 2) {
                let v = *rng.pick(&crate::gen::KNOWN);
                kv_types.insert(v);
                te = te.add_type(KnownValue::new(v));
            } else {
                let t = Envelope::new(format!("Type{}", rng.below(5)));
                te = te.add_type(t.clone());
                other_types.push(t);
            }
        }
        // unrelated assertions whose *objects* look like types must not count
        te = te.add_assertion("note", KnownValue::new(77)).add_assertion(known_values::NOTE, "Type0x");
        // the holder may already carry 'isA' assertions: the reference is read off the structure
        let isa_digest = d32(&Envelope::new(known_values::IS_A));
        let tt = tree_of(&te);
        let mut type_digests: HashSet<D32> = HashSet::new();
        let mut type_assertions = 0usize;
        for a in tt.children.iter().skip(1) {
            let s = if a.kind == crate::spec::Kind::Node { &a.children[0] } else { a };
            if s.kind == crate::spec::Kind::Assertion && s.children[0].digest == isa_digest {
                type_digests.insert(s.children[1].digest);
                type_assertions += 1;
            }
        }
        for v in &kv_types {
            if !type_digests.contains(&d32(&Envelope::new(KnownValue::new(*v)))) {
                ctx.violation("type/added-type-not-in-structure", "an added type is not an isA assertion of the result", jhex(&te));
            }
        }
        for v in crate::gen::KNOWN.iter().chain([77u64].iter()) {
            ctx.eval();
            ctx.count("type_checks");
            let kvv = KnownValue::new(*v);
            let want = type_digests.contains(&d32(&Envelope::new(kvv.clone())));
            let got = trap::guard(|| (te.has_type(&kvv), te.check_type(&kvv).is_ok(), te.has_type_envelope(kvv.clone()), te.check_type_envelope(kvv.clone()).is_ok()));
            match got {
                Ok((a, b, c, d)) => {
                    if a != want || b != want || c != want || d != want {
                        ctx.violation(if want { "type/missing" } else { "type/false-positive" }, &format!("known-value type {}: added={} has_type={} check_type={} has_type_envelope={} check_type_envelope={}", v, want, a, b, c, d), jhex(&te));
                    }
                }
                Err(p) => ctx.violation(&format!("type/panic/{}", p.signature()), &format!("{:?}", p), jhex(&te)),
            }
        }
        // the added known-value types with their OBJECT obscured afterwards (same digest): still reported by all four
        // checks
        for v in &kv_types {
            let kvv = KnownValue::new(*v);
            let obj = Envelope::new(kvv.clone());
            // (only when that digest occurs nowhere but as a type object: obscuring works per digest)
            let occurrences = tt.flatten().iter().filter(|(_, n)| n.digest == d32(&obj)).count();
            let as_type_object = tt.children.iter().skip(1).filter(|a| { let s = if a.kind == crate::spec::Kind::Node { &a.children[0] } else { *a }; s.kind == crate::spec::Kind::Assertion && s.children[0].digest == isa_digest && s.children[1].digest == d32(&obj) }).count();
            if occurrences != as_type_object || as_type_object == 0 {
                continue;
            }
            for form in ["elided", "compressed"] {
                let te2 = if form == "elided" { te.elide_removing_target(&obj) } else { te.elide_removing_set_with_action(&crate::gen::digest_set(&[d32(&obj)]), &ObscureAction::Compress) };
                ctx.eval();
                ctx.count("type_object_obscured_checks");
                match trap::guard(|| (te2.has_type(&kvv), te2.check_type(&kvv).is_ok(), te2.has_type_envelope(kvv.clone()), te2.check_type_envelope(kvv.clone()).is_ok())) {
                    Ok((a, b, c, d)) => {
                        if !(a && b && c && d) {
                            ctx.violation("type/missing-after-obscuring-type-object", &format!("known-value type {} with its type object {}: has_type={} check_type={} has_type_envelope={} check_type_envelope={}", v, form, a, b, c, d), jhex(&te2));
                        }
                    }
                    Err(p) => ctx.violation(&format!("type/panic/{}", p.signature()), &format!("{:?}", p), jhex(&te2)),
                }
            }
        }
        for i in 0..6 {
            let t = Envelope::new(format!("Type{}", i));
            let want = type_digests.contains(&d32(&t));
            if other_types.iter().any(|x| d32(x) == d32(&t)) && !want {
                ctx.violation("type/added-type-not-in-structure", "an added type is not an isA assertion of the result", jhex(&te));
            }
            ctx.eval();
            ctx.count("type_checks");
            match trap::guard(|| (te.has_type_envelope(t.clone()), te.check_type_envelope(t.clone()).is_ok())) {
                Ok((a, b)) => {
                    if a != want || b != want {
                        ctx.violation(if want { "type/missing" } else { "type/false-positive" }, &format!("type Type{}: added={} has_type_envelope={} check_type_envelope={}", i, want, a, b), jhex(&te));
                    }
                }
                Err(p) => ctx.violation(&format!("type/panic/{}", p.signature()), &format!("{:?}", p), jhex(&te)),
            }
        }
        match trap::guard(|| te.get_type()) {
            Ok(r) => {
                ctx.count("get_type_checks");
                let ok = match (type_assertions, &r) {
                    (1, Ok(t)) => type_digests.contains(&d32(t)),
                    (1, Err(_)) => false,
                    (_, Ok(_)) => false,
                    (_, Err(_)) => true,
                };
                if !ok {
                    ctx.violation("type/get_type", &format!("get_type() is {:?} with {} isA assertions", r.as_ref().map(|_| "Ok").map_err(|e| e.to_string()), type_assertions), jhex(&te));
                }
            }
            Err(p) => ctx.violation(&format!("type/panic/{}", p.signature()), &format!("{:?}", p), jhex(&te)),
        }
        match trap::guard(|| te.types()) {
            Ok(ts) => {
                if ts.len() != type_assertions || ts.iter().map(d32).collect::<HashSet<_>>() != type_digests {
                    ctx.violation("type/types-set", &format!("types() returned {} entries, the structure has {} isA assertions", ts.len(), type_assertions), jhex(&te));
                }
            }
            Err(p) => ctx.violation(&format!("type/panic/{}", p.signature()), &format!("{:?}", p), jhex(&te)),
        }
        ctx.sample(|| J::obj(vec![("case", J::i(case)), ("attachments", J::Arr(added.iter().map(|(p, v, c)| J::s(format!("{} vendor={:?} conformsTo={:?}", brief(&tree_of(p)), v, c))).collect())), ("kv_types", J::Arr(kv_types.iter().map(|v| J::i(*v)).collect()))]));
    }
}
