//! C18 — expression, request, response and event envelopes round-trip.

use bc_components::ARID;
use bc_envelope::prelude::*;
use dcbor::Date;

use super::common::*;
use crate::ctx::Ctx;
use crate::gen::{self, Gen, GenCfg, Route};
use crate::json::J;
use crate::pos::{tree_of, T};
use crate::rng::Rng;
use crate::spec::{self, Item, Kind};
use crate::trap;

const NAMES: [&str; 12] = ["add", "sub", "getKey", "", "f\u{fc}nf", "lhs", "3", "007", "+7", "2024", "18446744073709551615", "1e3"];

fn function(rng: &mut Rng) -> Function {
    match rng.below(5) {
        0 => functions::ADD,
        1 => Function::new_known(*rng.pick(&[0u64, 1, 2, 3, 4, 23, 24, 1000, u64::MAX]), None),
        2 => Function::new_known(rng.below(10) as u64, Some("custom".to_string())),
        3 => Function::new_static_named(*rng.pick(&["staticFn", "add", "2"])),
        _ if rng.chance(1, 4) => Function::new_with_static_name(rng.below(6) as u64, "staticKnown"),
        _ => Function::new_named(*rng.pick(&NAMES[..])),
    }
}

fn parameter(rng: &mut Rng) -> Parameter {
    match rng.below(5) {
        0 => parameters::LHS,
        1 => parameters::RHS,
        2 => Parameter::new_known(*rng.pick(&[0u64, 1, 2, 3, 99, u64::MAX]), None),
        3 => Parameter::new_static_named(*rng.pick(&["staticParam", "lhs", "7"])),
        _ => Parameter::new_named(*rng.pick(&NAMES[..])),
    }
}

fn value(rng: &mut Rng, case: u64) -> Envelope {
    let m = {
        let mut g = Gen::new(rng, GenCfg::small(), case);
        g.part(2)
    };
    let e = gen::build(&m, Route::Plain, rng);
    match rng.below(8) {
        0 => e.elide(),
        1 => e.compress().unwrap_or(e),
        _ => e,
    }
}

/// a date that is a fixed point of dcbor's f64 representation (a dependency limitation, not
/// charged to this crate): absent / integral / fractional / negative
fn date(rng: &mut Rng, ctx: &mut Ctx) -> Option<Date> {
    let ts: f64 = match rng.below(5) {
        0 => return None,
        1 => rng.below(4_000_000_000) as f64,
        2 => rng.below(2_000_000_000) as f64 + *rng.pick(&[0.5, 0.25, 0.125, 0.75]),
        3 => -(rng.below(1_000_000_000) as f64),
        _ => -(rng.below(1_000_000) as f64) - 0.5,
    };
    let d = Date::from_timestamp(ts);
    let back = Date::try_from(dcbor::CBOR::from(d.clone()));
    if matches!(&back, Ok(b) if *b == d) {
        ctx.count(if ts < 0.0 {
            "dates_negative"
        } else if ts.fract() != 0.0 {
            "dates_fractional"
        } else {
            "dates_integral"
        });
        Some(d)
    } else {
        ctx.count("dates_skipped_not_dcbor_fixed_point");
        None
    }
}

fn note(rng: &mut Rng) -> String {
    rng.pick(&["", "", "a note", "n\u{f6}te \"quoted\"", "x", " ", "\t", "\u{a0}", "  padded  ", "\n"]).to_string()
}

fn via_bytes(e: &Envelope) -> Option<Envelope> {
    Envelope::try_from_cbor_data(env_bytes(e)).ok()
}

fn leaf_item(t: &T) -> Option<Item> {
    t.leaf.as_ref().and_then(|l| spec::parse_item(l).ok())
}

fn kv_pred_counts(t: &T) -> std::collections::BTreeMap<u64, usize> {
    let mut m = std::collections::BTreeMap::new();
    if t.kind == Kind::Node {
        for a in &t.children[1..] {
            let s = if a.kind == Kind::Node { &a.children[0] } else { a };
            if s.kind == Kind::Assertion {
                if let Some(k) = s.children[0].kv {
                    *m.entry(k).or_insert(0) += 1;
                } else {
                    *m.entry(u64::MAX).or_insert(0) += 1;
                }
            }
        }
    }
    m
}

fn is_tagged_arid(it: &Option<Item>, tag: u64) -> bool {
    matches!(it, Some(Item::Tag(t, x)) if *t == tag && matches!(&**x, Item::Tag(40012, b) if matches!(&**b, Item::Bytes(v) if v.len() == 32)))
}

pub fn run(ctx: &mut Ctx) {
    bc_envelope::register_tags();
    let total = ctx.n(80_000, 6_000_000);
    let body_kv = known_values::BODY.value();
    let note_kv = known_values::NOTE.value();
    let date_kv = known_values::DATE.value();
    let result_kv = known_values::RESULT.value();
    let error_kv = known_values::ERROR.value();
    let content_kv = known_values::CONTENT.value();
    for case in ctx.cases(total) {
        ctx.begin_case(case);
        let mut rng = ctx.rng(case);
        let f = function(&mut rng);
        // equal values hash equally (functions / parameters / known values are used as map keys): the same
        // value created at run time, from a static name, re-read from its CBOR
        {
            use std::hash::{Hash, Hasher};
            fn h<T: Hash>(x: &T) -> u64 {
                let mut s = std::collections::hash_map::DefaultHasher::new();
                x.hash(&mut s);
                s.finish()
            }
            ctx.count("eq_hash_contract_checks");
            let mut fs: Vec<Function> = vec![f.clone()];
            if let Ok(back) = Function::try_from(dcbor::CBOR::from(f.clone())) {
                fs.push(back);
            }
            for name in ["staticFn", "add", "2"] {
                fs.push(Function::new_static_named(name));
                fs.push(Function::new_named(name));
            }
            fs.push(Function::new_known(1, None));
            fs.push(Function::new_with_static_name(1, "one"));
            for a in &fs {
                for b in &fs {
                    if a == b && h(a) != h(b) {
                        ctx.violation("eq-hash/function", &format!("{:?} == {:?} but their hashes differ", a, b), J::Null);
                    }
                }
            }
            let mut ps: Vec<Parameter> = vec![parameter(&mut rng)];
            for name in ["staticParam", "lhs", "7"] {
                ps.push(Parameter::new_static_named(name));
                ps.push(Parameter::new_named(name));
            }
            ps.push(Parameter::new_known(2, None));
            ps.push(Parameter::new_with_static_name(2, "two"));
            for a in &ps {
                for b in &ps {
                    if a == b && h(a) != h(b) {
                        ctx.violation("eq-hash/parameter", &format!("{:?} == {:?} but their hashes differ", a, b), J::Null);
                    }
                }
            }
            let ks = [KnownValue::new(3), KnownValue::new_with_static_name(3, "three"), KnownValue::new_with_name(3u64, "drei".to_string()), KnownValue::new(4)];
            for a in &ks {
                for b in &ks {
                    if a == b && h(a) != h(b) {
                        ctx.violation("eq-hash/known-value", &format!("{:?} == {:?} but their hashes differ", a, b), J::Null);
                    }
                }
            }
        }
        let np = rng.below(7);
        let mut expr = Expression::new(f.clone());
        let mut params: Vec<Parameter> = Vec::new();
        // the same expression assembled independently: function subject + one assertion per argument
        let mut reference = Envelope::new(f.clone());
        for _ in 0..np {
            let p = if !params.is_empty() && rng.chance(1, 4) { rng.pick(&params).clone() } else { parameter(&mut rng) };
            let v = value(&mut rng, case);
            reference = reference.add_assertion(Envelope::new(p.clone()), v.clone());
            // a named parameter may also be given as a plain &str (which must mean exactly that name)
            let as_str: Option<String> = (if matches!(p, Parameter::Named(_)) { let n = p.name(); Some(n[1..n.len() - 1].to_string()) } else { None }).filter(|_| rng.chance(1, 2));
            if let Some(name) = &as_str {
                ctx.count("parameters_given_as_str");
                expr = expr.with_parameter(name.as_str(), v);
                params.push(p);
                continue;
            }
            expr = match rng.below(4) {
                0 => expr.with_optional_parameter(p.clone(), Some(v)),
                1 => expr.with_optional_parameter(parameter(&mut rng), None::<Envelope>).with_parameter(p.clone(), v),
                _ => expr.with_parameter(p.clone(), v),
            };
            params.push(p);
        }
        let id = ARID::from_data_ref(rng.bytes(32)).unwrap();
        let replay_env = |e: &Envelope| jhex(e);

        // ---- Expression
        ctx.eval();
        ctx.count("expressions");
        let ee: Envelope = expr.clone().into();
        if env_bytes(&ee) != env_bytes(&reference) {
            ctx.violation("expression/differs-from-reference", "the expression's envelope differs from function + one assertion per (parameter, value) pair", J::obj(vec![("expression", jhex(&ee)), ("reference", jhex(&reference))]));
        }
        for p in &params {
            let want_n = reference.assertions_with_predicate(Envelope::new(p.clone())).len();
            if expr.objects_for_parameter(p.clone()).len() != want_n {
                ctx.violation("expression/arguments-lost", "objects_for_parameter does not return every argument given for the parameter", jhex(&reference));
            }
        }
        ctx.count("reference_envelope_compared");
        let et = tree_of(&ee);
        ctx.nontrivial(et.shape_hash());
        let subj = if et.kind == Kind::Node { &et.children[0] } else { &et };
        if !matches!(leaf_item(subj), Some(Item::Tag(40006, x)) if matches!(*x, Item::UInt(_) | Item::Text(_))) {
            ctx.violation("shape/expression-subject", "expression subject is not #6.40006(uint|text)", replay_env(&ee));
        }
        if et.kind == Kind::Node {
            for a in &et.children[1..] {
                let ok = a.kind == Kind::Assertion && matches!(leaf_item(&a.children[0]), Some(Item::Tag(40007, x)) if matches!(*x, Item::UInt(_) | Item::Text(_)));
                if !ok {
                    ctx.violation("shape/expression-parameter", "an expression assertion's predicate is not #6.40007(uint|text)", replay_env(&ee));
                }
            }
        }
        for (label, src) in [("direct", Some(ee.clone())), ("via-bytes", via_bytes(&ee))] {
            let Some(src) = src else {
                ctx.violation("expression/decode-failed", "expression envelope does not decode", replay_env(&ee));
                continue;
            };
            match trap::guard(|| Expression::try_from(src.clone())) {
                Ok(Ok(back)) => {
                    if env_bytes(&Envelope::from(back.clone())) != env_bytes(&ee) || dcbor::CBOR::from(back.function().clone()).to_cbor_data() != dcbor::CBOR::from(f.clone()).to_cbor_data() {
                        ctx.violation(&format!("expression/reserialise-differs/{}", label), "the parsed expression serialises differently or carries another function", replay_env(&ee));
                    }
                    if back != expr || back.function() != &f {
                        ctx.violation(&format!("expression/roundtrip-differs/{}", label), "parsed expression differs from the original", replay_env(&ee));
                    }
                }
                Ok(Err(err)) => ctx.violation(&format!("expression/roundtrip-err/{}", label), &format!("{}", err), replay_env(&ee)),
                Err(p) => ctx.violation(&format!("expression/panic/{}", p.signature()), &format!("{:?}", p), replay_env(&ee)),
            }
        }
        // expected function
        ctx.eval();
        ctx.count("expected_function_checks");
        // "another function" is decided on the encodings, not with the library's own PartialEq; the
        // known/named pair with the same display name (known add vs named "add") is drawn on purpose
        let enc = |x: &Function| dcbor::CBOR::from(x.clone()).to_cbor_data();
        let other_f = if rng.chance(1, 3) {
            match &f {
                Function::Known(..) => Function::new_named(&f.name()),
                Function::Named(_) => {
                    let n = f.named_name().unwrap_or_default();
                    Function::new_known(rng.below(5) as u64, Some(n))
                }
            }
        } else {
            loop {
                let g = function(&mut rng);
                if enc(&g) != enc(&f) {
                    break g;
                }
            }
        };
        if enc(&other_f) == enc(&f) {
            continue;
        }
        ctx.count("other_function_same_display_name_or_random");
        if Expression::try_from((ee.clone(), Some(&f))).is_err() {
            ctx.violation("expression/expected-function-rejected", "the expected function was rejected", replay_env(&ee));
        }
        if Expression::try_from((ee.clone(), Some(&other_f))).is_ok() {
            ctx.violation("expression/other-function-accepted", &format!("function {:?} accepted where {:?} is expected", f, other_f), replay_env(&ee));
        }
        // the same on a shape only a decoder produces: the function leaf carries an assertion of its own and the
        // arguments hang on that node (a node whose subject is a node)
        {
            let fn_item = crate::spec::parse_item(&dcbor::CBOR::from(f.clone()).to_cbor_data());
            if let Ok(fi) = fn_item {
                use crate::gen::M;
                let fnode = M::Node(Box::new(M::Leaf(fi)), vec![M::Assertion(Box::new(M::Leaf(Item::Text("a".into()))), Box::new(M::Leaf(Item::Text("b".into()))))]);
                let outer = M::Node(Box::new(fnode), vec![M::Assertion(Box::new(M::Leaf(Item::Tag(40007, Box::new(Item::UInt(2))))), Box::new(M::Leaf(Item::UInt(5))))]);
                if let Ok(foreign) = Envelope::try_from_cbor_data(outer.bytes()) {
                    ctx.count("expected_function_on_decorated_function_subject");
                    let own = trap::guard(|| Expression::try_from((foreign.clone(), Some(&f))).is_ok());
                    let other = trap::guard(|| Expression::try_from((foreign.clone(), Some(&other_f))).is_ok());
                    match (own, other) {
                        (Ok(_), Ok(true)) => ctx.violation("expression/other-function-accepted/decorated-function", &format!("function {:?} accepted where {:?} is expected (function leaf carrying an assertion of its own)", f, other_f), replay_env(&foreign)),
                        (Err(p), _) | (_, Err(p)) => ctx.violation(&format!("expression/panic/{}", p.signature()), &format!("{:?}", p), replay_env(&foreign)),
                        _ => {}
                    }
                }
            }
        }

        // ---- Request
        ctx.eval();
        ctx.count("requests");
        let nt = note(&mut rng);
        let dt = date(&mut rng, ctx);
        let mut req = if rng.chance(1, 3) {
            Request::new_with_body(expr.clone(), id).with_note(nt.clone())
        } else if rng.chance(1, 2) {
            // note (and date) first, the parameters afterwards: the order of the builder calls does not matter
            ctx.count("requests_metadata_before_parameters");
            let mut r = Request::new(f.clone(), id).with_note(nt.clone());
            if let Some(d) = &dt {
                r = r.with_date(d);
            }
            for a in ee.assertions() {
                if let (Some(pp), Some(oo)) = (a.as_predicate(), a.as_object()) {
                    if let Ok(par) = pp.try_leaf().and_then(Parameter::try_from) {
                        r = if rng.chance(1, 3) { r.with_optional_parameter(par, Some(oo)) } else { r.with_parameter(par, oo) };
                    }
                }
            }
            r
        } else {
            // the same request assembled through Request::new + with_parameter
            let mut r = Request::new(f.clone(), id);
            for a in ee.assertions() {
                if let (Some(pp), Some(oo)) = (a.as_predicate(), a.as_object()) {
                    if let Ok(par) = pp.try_leaf().and_then(Parameter::try_from) {
                        r = r.with_parameter(par, oo);
                    }
                }
            }
            r.with_note(nt.clone())
        };
        if let Some(d) = &dt {
            req = req.with_date(d);
        }
        ctx.count(if nt.is_empty() { "notes_empty" } else { "notes_nonempty" });
        if dt.is_none() {
            ctx.count("dates_absent");
        }
        let re: Envelope = req.clone().into();
        let rt = tree_of(&re);
        let counts = kv_pred_counts(&rt);
        let shape_ok = rt.kind == Kind::Node
            && is_tagged_arid(&leaf_item(&rt.children[0]), 40004)
            && counts.get(&body_kv) == Some(&1)
            && counts.get(&note_kv).copied().unwrap_or(0) == (!nt.is_empty()) as usize
            && counts.get(&date_kv).copied().unwrap_or(0) == dt.is_some() as usize
            && counts.values().sum::<usize>() == 1 + (!nt.is_empty()) as usize + dt.is_some() as usize;
        if !shape_ok {
            ctx.violation("shape/request", "request envelope is not #6.40004(ARID) ['body', optional 'note', optional 'date']", replay_env(&re));
        }
        for (label, src) in [("direct", Some(re.clone())), ("via-bytes", via_bytes(&re))] {
            let Some(src) = src else {
                ctx.violation("request/decode-failed", "request envelope does not decode", replay_env(&re));
                continue;
            };
            match trap::guard(|| Request::try_from(src.clone())) {
                Ok(Ok(back)) => {
                    if env_bytes(&Envelope::from(back.clone())) != env_bytes(&re) {
                        ctx.violation(&format!("request/reserialise-differs/{}", label), "the parsed request serialises to another envelope", replay_env(&re));
                    }
                    if back != req || back.id() != id || back.note() != nt || back.date() != dt.as_ref() {
                        ctx.violation(&format!("request/roundtrip-differs/{}", label), "parsed request differs from the original", replay_env(&re));
                    }
                }
                Ok(Err(err)) => ctx.violation(&format!("request/roundtrip-err/{}", label), &format!("{}", err), replay_env(&re)),
                Err(p) => ctx.violation(&format!("request/panic/{}", p.signature()), &format!("{:?}", p), replay_env(&re)),
            }
        }
        // the argument accessors of Expression and Request answer like the same lookups on the independently
        // assembled reference envelope (function + one assertion per argument)
        {
            ctx.eval();
            ctx.count("argument_accessor_checks");
            let mut probes: Vec<Parameter> = params.clone();
            probes.push(Parameter::new_named("no-such-parameter"));
            let same = |a: Result<Envelope, anyhow::Error>, b: Result<Envelope, anyhow::Error>| match (a, b) {
                (Ok(x), Ok(y)) => env_bytes(&x) == env_bytes(&y),
                (Err(_), Err(_)) => true,
                _ => false,
            };
            for p in &probes {
                let pe_ = Envelope::new(p.clone());
                let r = trap::guard(|| {
                    let mut ok = true;
                    ok &= same(expr.object_for_parameter(p.clone()), reference.object_for_predicate(pe_.clone()));
                    ok &= same(req.object_for_parameter(p.clone()), reference.object_for_predicate(pe_.clone()));
                    let want: Vec<Vec<u8>> = reference.objects_for_predicate(pe_.clone()).iter().map(env_bytes).collect();
                    let mut g1: Vec<Vec<u8>> = expr.objects_for_parameter(p.clone()).iter().map(env_bytes).collect();
                    let mut g2: Vec<Vec<u8>> = req.objects_for_parameter(p.clone()).iter().map(env_bytes).collect();
                    let mut w = want.clone();
                    w.sort();
                    g1.sort();
                    g2.sort();
                    ok &= g1 == w && g2 == w;
                    // typed forms: the same answers as the typed lookups on the reference
                    macro_rules! typed {
                        ($t:ty) => {{
                            let a = expr.extract_object_for_parameter::<$t>(p.clone()).ok();
                            let b = req.extract_object_for_parameter::<$t>(p.clone()).ok();
                            let c = reference.extract_object_for_predicate::<$t>(pe_.clone()).ok();
                            ok &= a == c && b == c;
                            let a = expr.extract_optional_object_for_parameter::<$t>(p.clone()).ok();
                            let b = req.extract_optional_object_for_parameter::<$t>(p.clone()).ok();
                            let c = reference.extract_optional_object_for_predicate::<$t>(pe_.clone()).ok();
                            ok &= a == c && b == c;
                            let a = expr.extract_objects_for_parameter::<$t>(p.clone()).ok().map(|mut v| { v.sort(); v });
                            let b = req.extract_objects_for_parameter::<$t>(p.clone()).ok().map(|mut v| { v.sort(); v });
                            let c = reference.extract_objects_for_predicate::<$t>(pe_.clone()).ok().map(|mut v| { v.sort(); v });
                            ok &= a == c && b == c;
                        }};
                    }
                    typed!(u64);
                    typed!(String);
                    ok
                });
                match r {
                    Ok(true) => {}
                    Ok(false) => ctx.violation("accessors/argument-lookup-differs", &format!("an argument accessor of Expression / Request for parameter {:?} answers differently from the same lookup on the reference envelope", p), replay_env(&re)),
                    Err(pn) => ctx.violation(&format!("accessors/panic/{}", pn.signature()), &format!("{:?}", pn), replay_env(&re)),
                }
            }
            if req.function() != &f || expr.function() != &f || env_bytes(req.expression_envelope()) != env_bytes(&reference) || env_bytes(expr.expression_envelope()) != env_bytes(&reference) || req.body() != &expr || Expression::from(req.clone()) != expr {
                ctx.violation("accessors/function-or-body", "function() / expression_envelope() / body() / Expression::from(request) disagree with what the request was built from", replay_env(&re));
            }
        }
        // malformed requests
        let body_a = re.assertion_with_predicate(known_values::BODY).unwrap();
        let malformed_req: Vec<(&str, Envelope)> = vec![
            ("no-body", re.remove_assertion(body_a.clone())),
            ("two-bodies", re.add_assertion(known_values::BODY, Envelope::from(Expression::new("other")))),
            ("subject-retagged-response", re.replace_subject(Envelope::new(dcbor::CBOR::to_tagged_value(40005u64, id)))),
            ("subject-untagged", re.replace_subject(Envelope::new(id))),
            ("subject-not-arid", re.replace_subject(Envelope::new(dcbor::CBOR::to_tagged_value(40004u64, "not an arid")))),
            ("body-not-expression", re.remove_assertion(body_a).add_assertion(known_values::BODY, "just text")),
        ];
        for (label, m) in malformed_req {
            ctx.eval();
            ctx.count("malformed_requests");
            match trap::guard(|| Request::try_from(m.clone())) {
                Ok(Err(_)) => {}
                Ok(Ok(_)) => ctx.violation(&format!("request/malformed-accepted/{}", label), &format!("malformed request ({}) parsed", label), replay_env(&m)),
                Err(p) => ctx.violation(&format!("request/malformed-panic/{}/{}", label, p.signature()), &format!("{:?}", p), replay_env(&m)),
            }
        }
        if Request::try_from((re.clone(), Some(&other_f))).is_ok() {
            ctx.violation("request/other-function-accepted", "request with another function than expected was accepted", replay_env(&re));
        }
        if Request::try_from((re.clone(), Some(&f))).is_err() {
            ctx.violation("request/expected-function-rejected", "request with the expected function was rejected", replay_env(&re));
        }

        // ---- Response (success / failure / early failure)
        let variant = rng.below(5);
        let val = value(&mut rng, case);
        let resp = match variant {
            0 => Response::new_success(id),
            1 => {
                if rng.chance(1, 2) {
                    Response::new_success(id).with_result(val.clone())
                } else {
                    Response::new_success(id).with_optional_result(Some(val.clone()))
                }
            }
            2 => {
                if rng.chance(1, 2) {
                    Response::new_failure(id).with_error(val.clone())
                } else {
                    Response::new_failure(id).with_optional_error(Some(val.clone())).with_optional_error(None::<Envelope>)
                }
            }
            3 => Response::new_failure(id),
            _ => {
                if rng.chance(1, 2) {
                    Response::new_early_failure().with_error(val.clone())
                } else {
                    Response::new_early_failure()
                }
            }
        };
        ctx.eval();
        ctx.count(["responses_success_ok", "responses_success_result", "responses_failure_error", "responses_failure_unknown", "responses_early_failure"][variant]);
        let pe: Envelope = resp.clone().into();
        let pt = tree_of(&pe);
        let counts = kv_pred_counts(&pt);
        let subj_item = if pt.kind == Kind::Node { leaf_item(&pt.children[0]) } else { None };
        let subj_ok = if variant == 4 { matches!(&subj_item, Some(Item::Tag(40005, x)) if matches!(&**x, Item::Tag(40000, k) if matches!(**k, Item::UInt(17)))) } else { is_tagged_arid(&subj_item, 40005) };
        let want_kv = if variant <= 1 { result_kv } else { error_kv };
        if !(subj_ok && counts.get(&want_kv) == Some(&1) && counts.values().sum::<usize>() == 1) {
            ctx.violation("shape/response", "response envelope is not #6.40005(ARID|'Unknown') with exactly one 'result' or 'error'", replay_env(&pe));
        }
        for (label, src) in [("direct", Some(pe.clone())), ("via-bytes", via_bytes(&pe))] {
            let Some(src) = src else {
                ctx.violation("response/decode-failed", "response envelope does not decode", replay_env(&pe));
                continue;
            };
            match trap::guard(|| Response::try_from(src.clone())) {
                Ok(Ok(back)) => {
                    if env_bytes(&Envelope::from(back.clone())) != env_bytes(&pe) {
                        ctx.violation(&format!("response/reserialise-differs/{}", label), "the parsed response serialises to another envelope", replay_env(&pe));
                    }
                    // the accessors of the parsed response: the value that was given, on the side it was given
                    // (text modulo NFC: a string handed over in another normalisation form is stored in NFC)
                    let nfc = |x: Option<String>| x.map(|t| unicode_normalization::UnicodeNormalization::nfc(t.as_str()).collect::<String>());
                    let acc_ok = trap::guard(|| {
                        let mut ok = back.is_err() == (variant > 1);
                        if variant != 4 {
                            ok &= back.expect_id() == id;
                        }
                        match variant {
                            1 => {
                                ok &= back.result().map(|r| env_bytes(r) == env_bytes(&val)).unwrap_or(false) && back.error().is_err();
                                ok &= back.extract_result::<u64>().ok() == val.extract_subject::<u64>().ok() && nfc(back.extract_result::<String>().ok()) == nfc(val.extract_subject::<String>().ok());
                            }
                            2 => {
                                ok &= back.error().map(|r| env_bytes(r) == env_bytes(&val)).unwrap_or(false) && back.result().is_err();
                                ok &= back.extract_error::<u64>().ok() == val.extract_subject::<u64>().ok() && nfc(back.extract_error::<String>().ok()) == nfc(val.extract_subject::<String>().ok());
                            }
                            0 => ok &= back.result().is_ok() && back.error().is_err(),
                            _ => ok &= back.result().is_err() && back.error().is_ok(),
                        }
                        ok
                    });
                    match acc_ok {
                        Ok(true) => {}
                        Ok(false) => ctx.violation(&format!("response/accessors-differ/{}", label), "is_err / expect_id / result / error / extract_result / extract_error of the parsed response do not give back what the response was built from", replay_env(&pe)),
                        Err(pn) => ctx.violation(&format!("response/accessor-panic/{}", pn.signature()), &format!("{:?}", pn), replay_env(&pe)),
                    }
                    if back != resp || back.is_ok() != (variant <= 1) || back.id() != if variant == 4 { None } else { Some(id) } {
                        ctx.violation(&format!("response/roundtrip-differs/{}", label), "parsed response differs from the original", replay_env(&pe));
                    }
                }
                Ok(Err(err)) => ctx.violation(&format!("response/roundtrip-err/{}", label), &format!("{}", err), replay_env(&pe)),
                Err(p) => ctx.violation(&format!("response/panic/{}", p.signature()), &format!("{:?}", p), replay_env(&pe)),
            }
        }
        // malformed responses: both, neither, second result, retagged subject
        let only = pe.assertions()[0].clone();
        let malformed_resp: Vec<(&str, Envelope)> = vec![
            ("both-result-and-error", pe.add_assertion(if variant <= 1 { known_values::ERROR } else { known_values::RESULT }, "x")),
            ("neither", pe.remove_assertion(only.clone()).add_assertion("unrelated", 1)),
            ("neither-bare", pe.remove_assertion(only.clone())),
            ("second-of-same", pe.add_assertion(if variant <= 1 { known_values::RESULT } else { known_values::ERROR }, "second")),
            // ... the extra part given in decorated form (salted, annotated)
            ("both-one-salted", pe.add_assertion_salted(if variant <= 1 { known_values::ERROR } else { known_values::RESULT }, "x", true)),
            ("both-one-annotated", pe.add_assertion_envelope(Envelope::new_assertion(if variant <= 1 { known_values::ERROR } else { known_values::RESULT }, "x").add_assertion(known_values::NOTE, "n")).unwrap()),
            // ... the predicate of the extra part (or of the original part) obscured
            ("both-extra-predicate-elided", {
                let other = if variant <= 1 { known_values::ERROR } else { known_values::RESULT };
                pe.add_assertion(other.clone(), "x").elide_removing_target(&Envelope::new(other))
            }),
            ("both-own-predicate-elided", {
                let (own, other) = if variant <= 1 { (known_values::RESULT, known_values::ERROR) } else { (known_values::ERROR, known_values::RESULT) };
                pe.add_assertion(other, "x").elide_removing_target(&Envelope::new(own))
            }),
            ("second-of-same-salted", pe.add_assertion_salted(if variant <= 1 { known_values::RESULT } else { known_values::ERROR }, "second", true)),
            ("subject-retagged-request", pe.replace_subject(Envelope::new(dcbor::CBOR::to_tagged_value(40004u64, id)))),
            ("subject-untagged", pe.replace_subject(Envelope::new(id))),
            ("subject-not-arid", pe.replace_subject(Envelope::new(dcbor::CBOR::to_tagged_value(40005u64, 12345)))),
            ("subject-other-known-value", pe.replace_subject(Envelope::new(dcbor::CBOR::to_tagged_value(40005u64, known_values::OK_VALUE)))),
        ];
        for (label, m) in malformed_resp {
            ctx.eval();
            ctx.count("malformed_responses");
            // a success response whose subject is the 'Unknown' marker is also malformed; the
            // "other known value" subject is malformed in every variant
            match trap::guard(|| Response::try_from(m.clone())) {
                Ok(Err(_)) => {}
                Ok(Ok(_)) => ctx.violation(&format!("response/malformed-accepted/{}", label), &format!("malformed response ({}) parsed", label), replay_env(&m)),
                Err(p) => ctx.violation(&format!("response/malformed-panic/{}/{}", label, p.signature()), &format!("{:?}", p), replay_env(&m)),
            }
        }

        // ---- Event
        ctx.eval();
        ctx.count("events");
        let ent = note(&mut rng);
        let edt = date(&mut rng, ctx);
        if rng.chance(1, 2) {
            let content = format!("content-{}", rng.below(1000));
            let mut ev = Event::<String>::new(content.clone(), id).with_note(ent.clone());
            if let Some(d) = &edt {
                ev = ev.with_date(d);
            }
            let ve: Envelope = ev.clone().into();
            let vt = tree_of(&ve);
            let counts = kv_pred_counts(&vt);
            if !(vt.kind == Kind::Node && is_tagged_arid(&leaf_item(&vt.children[0]), 40026) && counts.get(&content_kv) == Some(&1) && counts.get(&note_kv).copied().unwrap_or(0) == (!ent.is_empty()) as usize && counts.get(&date_kv).copied().unwrap_or(0) == edt.is_some() as usize) {
                ctx.violation("shape/event", "event envelope is not #6.40026(ARID) ['content', optional 'note', optional 'date']", replay_env(&ve));
            }
            for (label, src) in [("direct", Some(ve.clone())), ("via-bytes", via_bytes(&ve))] {
                let Some(src) = src else { continue };
                match trap::guard(|| Event::<String>::try_from(src.clone())) {
                    Ok(Ok(back)) => {
                        if back != ev || back.content() != &content || back.note() != ent || back.date() != edt.as_ref() {
                            ctx.violation(&format!("event/roundtrip-differs/{}", label), "parsed event differs from the original", replay_env(&ve));
                        }
                    }
                    Ok(Err(err)) => ctx.violation(&format!("event/roundtrip-err/{}", label), &format!("{}", err), replay_env(&ve)),
                    Err(p) => ctx.violation(&format!("event/panic/{}", p.signature()), &format!("{:?}", p), replay_env(&ve)),
                }
            }
            let ca = ve.assertion_with_predicate(known_values::CONTENT).unwrap();
            for (label, m) in [
                ("no-content", ve.remove_assertion(ca.clone())),
                ("subject-retagged", ve.replace_subject(Envelope::new(dcbor::CBOR::to_tagged_value(40004u64, id)))),
                ("subject-untagged", ve.replace_subject(Envelope::new(id))),
                ("content-wrong-type", ve.remove_assertion(ca).add_assertion(known_values::CONTENT, 42)),
            ] {
                ctx.eval();
                ctx.count("malformed_events");
                match trap::guard(|| Event::<String>::try_from(m.clone())) {
                    Ok(Err(_)) => {}
                    Ok(Ok(_)) => ctx.violation(&format!("event/malformed-accepted/{}", label), &format!("malformed event ({}) parsed", label), replay_env(&m)),
                    Err(p) => ctx.violation(&format!("event/malformed-panic/{}/{}", label, p.signature()), &format!("{:?}", p), replay_env(&m)),
                }
            }
        } else {
            let content = value(&mut rng, case);
            let mut ev = Event::<Envelope>::new(content.clone(), id).with_note(ent.clone());
            if let Some(d) = &edt {
                ev = ev.with_date(d);
            }
            let ve: Envelope = ev.clone().into();
            ctx.count("events_envelope_content");
            for (label, src) in [("direct", Some(ve.clone())), ("via-bytes", via_bytes(&ve))] {
                let Some(src) = src else { continue };
                match trap::guard(|| Event::<Envelope>::try_from(src.clone())) {
                    Ok(Ok(back)) => {
                        if back != ev || !back.content().is_identical_to(&content) {
                            ctx.violation(&format!("event/roundtrip-differs/{}", label), "parsed event differs from the original", replay_env(&ve));
                        }
                    }
                    Ok(Err(err)) => ctx.violation(&format!("event/roundtrip-err/{}", label), &format!("{}", err), replay_env(&ve)),
                    Err(p) => ctx.violation(&format!("event/panic/{}", p.signature()), &format!("{:?}", p), replay_env(&ve)),
                }
            }
        }
        ctx.sample(|| J::obj(vec![("case", J::i(case)), ("function", J::s(format!("{:?}", f))), ("parameters", J::i(np as u64)), ("request", J::s(brief(&rt))), ("response_variant", J::i(variant as u64))]));
    }
}
