//! C09 — signatures bind to the subject digest and verification is exact.

use bc_components::{Signature, SignatureScheme, Signer, SigningOptions, SigningPrivateKey, SigningPublicKey, Verifier};
use bc_envelope::prelude::*;

use super::common::*;
use crate::ctx::Ctx;
use crate::gen::{self, GenCfg};
use crate::json::J;
use crate::pos::{children_of, d32, kind_of, tree_of, Edge};
use crate::rng::Rng;
use crate::spec::{Kind, D32};
use crate::trap;

pub struct Key {
    pub scheme: &'static str,
    pub sk: SigningPrivateKey,
    pub pk: SigningPublicKey,
    pub ssh: bool,
}

impl Key {
    pub fn options(&self) -> Option<SigningOptions> {
        if self.ssh {
            Some(SigningOptions::Ssh { namespace: "vmon".to_string(), hash_alg: ssh_key::HashAlg::Sha512 })
        } else {
            None
        }
    }
    pub fn sign(&self, msg: &[u8]) -> Signature {
        self.sk.sign_with_options(&msg as &dyn AsRef<[u8]>, self.options()).expect("sign")
    }
}

pub fn key_pool(per_scheme: usize, with_slow: bool) -> Vec<Key> {
    let mut schemes: Vec<(&'static str, SignatureScheme, bool)> = vec![
        ("Schnorr", SignatureScheme::Schnorr, false),
        ("Ecdsa", SignatureScheme::Ecdsa, false),
        ("Ed25519", SignatureScheme::Ed25519, false),
        ("MLDSA44", SignatureScheme::MLDSA44, false),
        ("MLDSA65", SignatureScheme::MLDSA65, false),
        ("MLDSA87", SignatureScheme::MLDSA87, false),
        ("SshEd25519", SignatureScheme::SshEd25519, true),
        ("SshEcdsaP256", SignatureScheme::SshEcdsaP256, true),
        ("SshEcdsaP384", SignatureScheme::SshEcdsaP384, true),
    ];
    if with_slow {
        schemes.push(("SshDsa", SignatureScheme::SshDsa, true));
    }
    let mut out = Vec::new();
    for (name, s, ssh) in schemes {
        for _ in 0..per_scheme {
            let (sk, pk) = s.keypair();
            out.push(Key { scheme: name, sk, pk, ssh });
        }
    }
    out
}

fn signed_digest() -> D32 {
    d32(&Envelope::new(known_values::SIGNED))
}

fn subject_chain(e: &Envelope) -> Envelope {
    let mut cur = e.clone();
    while kind_of(&cur) == Kind::Node {
        cur = children_of(&cur)[0].1.clone();
    }
    cur
}

fn signature_of(e: &Envelope) -> Option<Signature> {
    let s = subject_chain(e);
    match s.case() {
        bc_envelope::base::envelope::EnvelopeCase::Leaf { cbor, .. } => Signature::try_from(cbor.clone()).ok(),
        _ => None,
    }
}

/// objects of the visible 'signed' assertions directly on `e` (one level, like assertions())
fn signed_objects(e: &Envelope) -> Vec<Envelope> {
    let sd = signed_digest();
    let mut out = Vec::new();
    if kind_of(e) != Kind::Node {
        return out;
    }
    for (edge, a) in children_of(e) {
        if edge == Edge::Subject {
            continue;
        }
        let s = if kind_of(&a) == Kind::Node { children_of(&a)[0].1.clone() } else { a.clone() };
        if kind_of(&s) == Kind::Assertion {
            let ch = children_of(&s);
            if d32(&ch[0].1) == sd {
                out.push(ch[1].1.clone());
            }
        }
    }
    out
}

/// a leaf that is tagged as an SSH signature (#6.40020(#6.40802(text))) but which bc-components
/// cannot decode back into a `Signature`
fn is_unreadable_ssh_signature(e: &Envelope) -> bool {
    let s = subject_chain(e);
    match s.case() {
        bc_envelope::base::envelope::EnvelopeCase::Leaf { cbor, .. } => {
            let b = cbor.to_cbor_data();
            b.starts_with(&[0xd9, 0x9c, 0x54, 0xd9, 0x9f, 0x62]) && Signature::try_from(cbor.clone()).is_err()
        }
        _ => false,
    }
}

#[derive(Default)]
struct Verdict {
    strict: bool,
    loose: bool,
    /// digests of metadata envelopes that are legitimately covered for this key
    covered: Vec<D32>,
}

/// reference verifier for key `pk` on envelope `e`
fn reference(e: &Envelope, pk: &SigningPublicKey) -> Verdict {
    let mut v = Verdict::default();
    let subject = if kind_of(e) == Kind::Node { children_of(e)[0].1.clone() } else { e.clone() };
    let sd = d32(&subject);
    for o in signed_objects(e) {
        let os = if kind_of(&o) == Kind::Node { children_of(&o)[0].1.clone() } else { o.clone() };
        match kind_of(&os) {
            Kind::Wrapped => {
                let inner = children_of(&os)[0].1.clone();
                let inner_valid = signature_of(&inner).map(|s| pk.verify(&s, &sd)).unwrap_or(false);
                let wd = d32(&os);
                let outer_valid = signed_objects(&o).iter().any(|oo| signature_of(oo).map(|s| pk.verify(&s, &wd)).unwrap_or(false));
                if inner_valid {
                    v.loose = true;
                }
                if inner_valid && outer_valid {
                    v.strict = true;
                    v.covered.push(d32(&inner));
                }
            }
            _ => {
                if let Some(s) = signature_of(&o) {
                    if pk.verify(&s, &sd) {
                        v.strict = true;
                        v.loose = true;
                        v.covered.push(d32(&o));
                    }
                }
            }
        }
    }
    v
}

fn judge_key(ctx: &mut Ctx, e: &Envelope, key: &Key, label: &str, replay: &dyn Fn() -> J) {
    let r = reference(e, &key.pk);
    ctx.eval();
    ctx.count(if r.strict {
        "key_checks_valid"
    } else if r.loose {
        "key_checks_inner_only"
    } else {
        "key_checks_invalid"
    });
    ctx.count(&format!("scheme_{}", key.scheme));
    let calls = trap::guard(|| {
        (
            e.has_signature_from(&key.pk),
            e.verify_signature_from(&key.pk).map(|x| d32(&x)),
            e.has_signature_from_returning_metadata(&key.pk).map(|m| m.map(|m| d32(&m))),
            e.verify_signature_from_returning_metadata(&key.pk).map(|m| d32(&m)),
        )
    });
    let (has, ver, hasm, verm) = match calls {
        Ok(x) => x,
        Err(p) => {
            ctx.violation(&format!("verify-panic/{}", p.signature()), &format!("{} {:?}", label, p), replay());
            return;
        }
    };
    let accepts = [matches!(has, Ok(true)), ver.is_ok(), matches!(hasm, Ok(Some(_))), verm.is_ok()];
    let names = ["has_signature_from", "verify_signature_from", "has_signature_from_returning_metadata", "verify_signature_from_returning_metadata"];
    for (acc, name) in accepts.iter().zip(names.iter()) {
        if r.strict && !acc {
            let how = match (&has, name) {
                (Err(_), _) => "err",
                _ => "false",
            };
            ctx.violation(&format!("completeness/{}/{}", name, how), &format!("{}: key {} has a valid visible signature but {} does not accept ({:?})", label, key.scheme, name, has.as_ref().map_err(|e| e.to_string())), replay());
        }
        if *acc && !r.loose {
            ctx.violation(&format!("soundness/{}", name), &format!("{}: {} accepted key {} which has no valid signature over the subject", label, name, key.scheme), replay());
        }
    }
    if let Ok(d) = &ver {
        if *d != d32(e) {
            ctx.violation("verify_signature_from/returns-other", "verify_signature_from returned another envelope", replay());
        }
    }
    // returned metadata must be covered by a signature of the same key
    for (m, name) in [(hasm.ok().flatten(), "has_signature_from_returning_metadata"), (verm.ok(), "verify_signature_from_returning_metadata")] {
        if let Some(md) = m {
            ctx.count("metadata_returned");
            if !r.covered.contains(&md) {
                ctx.violation(&format!("metadata-not-covered/{}", name), &format!("{}: {} returned metadata that is not covered by a signature of key {}", label, name, key.scheme), replay());
            }
        }
    }
}

fn judge_threshold(ctx: &mut Ctx, e: &Envelope, keys: &[&Key], replay: &dyn Fn() -> J) {
    let vs: Vec<Verdict> = keys.iter().map(|k| reference(e, &k.pk)).collect();
    let strict = vs.iter().filter(|v| v.strict).count();
    let loose = vs.iter().filter(|v| v.loose).count();
    let pks: Vec<&dyn Verifier> = keys.iter().map(|k| &k.pk as &dyn Verifier).collect();
    let mut thresholds: Vec<Option<usize>> = (1..=keys.len() + 1).map(Some).collect();
    thresholds.push(None);
    for t in thresholds {
        let need = t.unwrap_or(keys.len());
        ctx.eval();
        ctx.count("threshold_checks");
        let r = trap::guard(|| (e.has_signatures_from_threshold(&pks, t), e.verify_signatures_from_threshold(&pks, t).is_ok(), if t.is_none() { Some((e.has_signatures_from(&pks), e.verify_signatures_from(&pks).is_ok())) } else { None }));
        let (h, v, all) = match r {
            Ok(x) => x,
            Err(p) => {
                ctx.violation(&format!("threshold-panic/{}", p.signature()), &format!("{:?}", p), replay());
                continue;
            }
        };
        let acc = matches!(h, Ok(true));
        if acc != v {
            ctx.violation("threshold/has-vs-verify", "has_signatures_from_threshold and verify_signatures_from_threshold disagree", replay());
        }
        if let Some((h2, v2)) = all {
            if matches!(h2, Ok(true)) != acc || v2 != v {
                ctx.violation("threshold/none-vs-all", "has_signatures_from differs from threshold None", replay());
            }
        }
        if strict >= need && !acc {
            ctx.violation(&format!("threshold/completeness/{}", if h.is_err() { "err" } else { "false" }), &format!("{} of {} listed keys have a valid signature, threshold {:?}, result {:?}", strict, keys.len(), t, h.as_ref().map_err(|e| e.to_string())), replay());
        }
        if acc && loose < need {
            ctx.violation("threshold/soundness", &format!("accepted with only {} valid signatures for threshold {:?}", loose, t), replay());
        }
        if acc {
            ctx.count("threshold_accepts");
        } else {
            ctx.count("threshold_rejects");
        }
    }
}

pub fn run(ctx: &mut Ctx) {
    let pool = key_pool(2, ctx.shard % 4 == 0 || ctx.tier == crate::ctx::Tier::Thorough);
    let total = ctx.n(12_000, 300_000);
    for case in ctx.cases(total) {
        ctx.begin_case(case);
        let mut rng = ctx.rng(case);
        let (_m, base) = universe(&mut rng, GenCfg::small(), case);
        if base.is_obscured() && !base.is_node() {
            // a bare placeholder can still be signed; keep it
        }
        let nsign = rng.range(1, 4);
        let mut idx: Vec<usize> = (0..pool.len()).collect();
        rng.shuffle(&mut idx);
        let signers: Vec<&Key> = idx[..nsign].iter().map(|&i| &pool[i]).collect();
        let strangers: Vec<&Key> = idx[nsign..nsign + 2].iter().map(|&i| &pool[i]).collect();
        let mut e = base.clone();
        let mut hist: Vec<String> = Vec::new();
        // every 6th case the envelope is signed while it is compressed as a whole and the subject is uncompressed
        // again afterwards (the signatures then sit on a node whose subject is a node)
        let sign_compressed = case % 6 == 1 && base.is_node() && !base.is_subject_obscured();
        if sign_compressed {
            if let Ok(c) = base.compress() {
                e = c;
                hist.push("compress whole".into());
            }
        }
        let batch = case % 5 == 0;
        if batch {
            // the batch entry points
            ctx.count("batch_signing_entry_points");
            let plain: Vec<&Key> = signers.iter().filter(|k| !k.ssh).cloned().collect();
            let refs: Vec<&dyn Signer> = plain.iter().map(|k| &k.sk as &dyn Signer).collect();
            e = e.add_signatures(&refs);
            let md = SignatureMetadata::new().with_assertion(known_values::NOTE, format!("batch-{}", case));
            let opts: Vec<(&dyn Signer, Option<SigningOptions>, Option<SignatureMetadata>)> = signers.iter().filter(|k| k.ssh).map(|k| (&k.sk as &dyn Signer, k.options(), if rng.chance(1, 2) { Some(md.clone()) } else { None })).collect();
            e = e.add_signatures_opt(&opts);
            hist.push(format!("batch sign {} keys", signers.len()));
        }
        for k in signers.iter().filter(|_| !batch) {
            if rng.chance(1, 3) {
                let md = SignatureMetadata::new().with_assertion(known_values::NOTE, format!("meta-{}", case)).with_assertion("when", case);
                e = e.add_signature_opt(&k.sk, k.options(), Some(md));
                hist.push(format!("sign+metadata {}", k.scheme));
                ctx.count("signatures_with_metadata");
            } else {
                e = e.add_signature_opt(&k.sk, k.options(), None);
                hist.push(format!("sign {}", k.scheme));
                ctx.count("signatures_plain");
            }
        }
        ctx.nontrivial(tree_of(&e).shape_hash() ^ crate::rng::fnv(&hist.join(",")));
        let subject_digest = d32(&e.subject());
        // anchor: right after signing, every signer has a valid signature over the subject digest
        // (otherwise a signer that signs the wrong thing would agree with the reference vacuously)
        let mut dependency_bug = false;
        for k in &signers {
            ctx.eval();
            ctx.count("own_signature_checks");
            if !reference(&e, &k.pk).strict {
                // is it the signature object itself that the dependency cannot read back?
                let unreadable = signed_objects(&e).iter().any(|o| {
                    let os = if kind_of(o) == Kind::Node { children_of(o)[0].1.clone() } else { o.clone() };
                    let mut cands: Vec<Envelope> = signed_objects(o);
                    cands.push(if kind_of(&os) == Kind::Wrapped { children_of(&os)[0].1.clone() } else { o.clone() });
                    cands.iter().any(is_unreadable_ssh_signature)
                });
                if unreadable && k.scheme.starts_with("SshEcdsa") {
                    dependency_bug = true;
                    ctx.violation(&format!("dependency-rejects-own-signature/{}", k.scheme), "a freshly made SSH ECDSA signature cannot be read back / verified by bc-components+ssh-key (about 1% of signatures)", jhex(&e));
                } else {
                    ctx.violation("signing/own-signature-not-valid", &format!("after add_signature the signer ({}) has no valid signature over the subject digest", k.scheme), jhex(&e));
                }
            }
        }
        if dependency_bug {
            continue;
        }
        if sign_compressed && e.is_subject_compressed() {
            match trap::guard(|| e.uncompress_subject()) {
                Ok(Ok(u)) => {
                    e = u;
                    hist.push("uncompress_subject after signing".into());
                    ctx.count("signed_while_compressed_then_uncompressed");
                }
                Ok(Err(err)) => ctx.violation("sign-compressed/uncompress-err", &format!("{}", err), jhex(&e)),
                Err(p) => ctx.violation(&format!("sign-compressed/panic/{}", p.signature()), &format!("{:?}", p), jhex(&e)),
            }
        }

        // adversarial 'signed' assertions
        let adv = rng.below(11);
        let victim = *rng.pick(&signers);
        let foreign = strangers[0];
        match adv {
            0 => {
                // metadata wrapper with NO outer signature, inner signature genuinely by `victim`
                let sig = Envelope::new(victim.sign(&subject_digest));
                let wrapper = sig.add_assertion(known_values::NOTE, "forged metadata").wrap_envelope();
                e = e.add_assertion(known_values::SIGNED, wrapper);
                hist.push("adv: unsigned metadata wrapper".into());
                ctx.count("adv_unsigned_wrapper");
            }
            1 => {
                // wrapper whose outer signature is by a foreign key
                let sig = Envelope::new(victim.sign(&subject_digest));
                let wrapper = sig.add_assertion(known_values::NOTE, "forged metadata").wrap_envelope();
                let outer = Envelope::new(foreign.sign(&d32(&wrapper)));
                e = e.add_assertion(known_values::SIGNED, wrapper.add_assertion(known_values::SIGNED, outer));
                hist.push("adv: foreign-signed metadata wrapper".into());
                ctx.count("adv_foreign_signed_wrapper");
            }
            2 => {
                e = e.add_assertion(known_values::SIGNED, "not a signature");
                hist.push("adv: non-signature object".into());
                ctx.count("adv_non_signature_object");
            }
            3 => {
                // signature by a stranger over ANOTHER subject
                let other = Envelope::new(format!("other-{}", case));
                e = e.add_assertion(known_values::SIGNED, strangers[1].sign(&d32(&other)));
                hist.push("adv: signature over another subject".into());
                ctx.count("adv_other_subject");
            }
            4 => {
                // salted 'signed' assertion (an assertion carrying assertions)
                e = e.add_assertion_salted(known_values::SIGNED, foreign.sign(&subject_digest), true);
                hist.push("adv: salted signed assertion by stranger0".into());
                ctx.count("adv_salted_signed");
            }
            5 => {
                // wrapper with two outer signatures (victim + foreign)
                let sig = Envelope::new(victim.sign(&subject_digest));
                let wrapper = sig.add_assertion(known_values::NOTE, "twice signed").wrap_envelope();
                let o1 = Envelope::new(victim.sign(&d32(&wrapper)));
                let o2 = Envelope::new(foreign.sign(&d32(&wrapper)));
                e = e.add_assertion(known_values::SIGNED, wrapper.add_assertion(known_values::SIGNED, o1).add_assertion(known_values::SIGNED, o2));
                hist.push("adv: wrapper with two outer signatures".into());
                ctx.count("adv_two_outer_signatures");
            }
            7 => {
                // a bare signature leaf carrying assertions (note + unwrapped countersignature by the same key)
                let so = Envelope::new(foreign.sign(&subject_digest));
                let counter = foreign.sign(&d32(&so));
                e = e.add_assertion(known_values::SIGNED, so.add_assertion(known_values::SIGNED, counter).add_assertion(known_values::NOTE, "countersigned"));
                hist.push("adv: signature leaf with its own assertions (stranger0)".into());
                ctx.count("adv_signature_leaf_with_assertions");
            }
            6 => {
                // wrapper signed by victim outside but inner signature by a foreign key
                let sig = Envelope::new(foreign.sign(&subject_digest));
                let wrapper = sig.add_assertion(known_values::NOTE, "mixed").wrap_envelope();
                let outer = Envelope::new(victim.sign(&d32(&wrapper)));
                e = e.add_assertion(known_values::SIGNED, wrapper.add_assertion(known_values::SIGNED, outer));
                hist.push("adv: inner by foreign key, outer by victim".into());
                ctx.count("adv_mixed_wrapper");
            }
            8 => {
                // every metadata signature object gets its OUTER 'signed' assertion decorated (a salt on that
                // assertion): the signatures stay what they were
                let mut changed = false;
                for sa in e.assertions_with_predicate(known_values::SIGNED) {
                    if let Some(so) = sa.as_object() {
                        if so.subject().is_wrapped() {
                            let outers = so.assertions_with_predicate(known_values::SIGNED);
                            if let Some(oa) = outers.first() {
                                if oa.assertions().is_empty() {
                                    if let Ok(so2) = so.replace_assertion(oa.clone(), oa.add_salt()) {
                                        if let Ok(e2) = e.replace_assertion(sa.clone(), Envelope::new_assertion(known_values::SIGNED, so2)) {
                                            e = e2;
                                            changed = true;
                                        }
                                    }
                                }
                            }
                        }
                    }
                }
                if changed {
                    hist.push("adv: outer 'signed' assertion of metadata wrappers decorated".into());
                    ctx.count("adv_decorated_outer_signed");
                }
            }
            _ => {}
        }
        // other assertions added after signing
        if rng.chance(1, 2) {
            e = e.add_assertion("later", case).add_salt();
            hist.push("add assertions".into());
        }
        // obscure parts after signing (any position: other signers' signature objects, the
        // assertions, the subject's interior)
        let key = fresh_key(&mut rng);
        let rounds = rng.below(4);
        if rounds > 0 {
            e = gen::obscure_random(&e, &mut rng, rounds, &key);
            hist.push(format!("obscure x{}", rounds));
            ctx.count("obscured_after_signing");
        }
        // different subject: signatures must no longer verify
        let swapped = rng.chance(1, 6);
        if swapped {
            e = e.replace_subject(Envelope::new(format!("swapped-{}", case)));
            hist.push("replace subject".into());
            ctx.count("subject_replaced");
        }
        let hist2 = hist.clone();
        let e2 = e.clone();
        let replay = move || J::obj(vec![("envelope_hex", jhex(&e2)), ("history", J::Arr(hist2.iter().map(J::s).collect()))]);

        let mut probe: Vec<&Key> = signers.clone();
        probe.extend(strangers.iter());
        for k in &probe {
            judge_key(ctx, &e, k, &hist.join("; "), &replay);
        }
        // key lists and thresholds
        let mut list: Vec<&Key> = probe.clone();
        rng.shuffle(&mut list);
        let n = rng.range(1, list.len());
        judge_threshold(ctx, &e, &list[..n], &replay);
        // a list may name the same key more than once: each ENTRY with a valid signature counts
        if case % 3 == 0 {
            let mut l2: Vec<&Key> = list[..n].to_vec();
            for _ in 0..rng.range(1, 2) {
                let x = l2[rng.below(l2.len())];
                let at = rng.below(l2.len() + 1);
                l2.insert(at, x);
            }
            ctx.count("key_lists_with_repeated_keys");
            judge_threshold(ctx, &e, &l2, &replay);
        }

        // sign()/verify() on the wrapped form
        if case % 4 == 0 {
            let k = signers[0];
            ctx.eval();
            ctx.count("sign_verify_wrapped");
            let s = if k.options().is_none() && case % 8 == 0 { base.sign(&k.sk) } else { base.sign_opt(&k.sk, k.options()) };
            if k.scheme.starts_with("SshEcdsa") && signed_objects(&s).iter().any(is_unreadable_ssh_signature) {
                ctx.violation(&format!("dependency-rejects-own-signature/{}", k.scheme), "a freshly made SSH ECDSA signature cannot be read back / verified by bc-components+ssh-key (about 1% of signatures)", jhex(&s));
                continue;
            }
            match trap::guard(|| (s.verify(&k.pk), s.verify(&strangers[0].pk), s.verify_returning_metadata(&k.pk))) {
                Ok((good, bad, meta)) => {
                    match good {
                        Ok(x) => {
                            if !x.is_identical_to(&base) {
                                ctx.violation("sign-verify/not-original", "verify(sign(E)) is not E", jhex(&s));
                            }
                        }
                        Err(err) => ctx.violation("sign-verify/rejected", &format!("{}", err), jhex(&s)),
                    }
                    if bad.is_ok() {
                        ctx.violation("sign-verify/wrong-key-accepted", "verify succeeded with another key", jhex(&s));
                    }
                    if meta.is_err() {
                        ctx.violation("sign-verify/metadata-err", "verify_returning_metadata failed for the signer", jhex(&s));
                    }
                }
                Err(p) => ctx.violation(&format!("sign-verify/panic/{}", p.signature()), &format!("{:?}", p), jhex(&s)),
            }
            // make_signed_assertion: a 'signed' assertion (optionally carrying a note) built by hand
            {
                let sig = k.sign(&d32(&base.subject()));
                if !(k.scheme.starts_with("SshEcdsa") && Signature::try_from(dcbor::CBOR::from(sig.clone())).is_err()) {
                    for note in [None, Some("a note")] {
                        ctx.count("make_signed_assertion_checks");
                        let sa = base.make_signed_assertion(&sig, note);
                        let signed = base.add_assertion_envelope(sa).unwrap();
                        if !matches!(signed.has_signature_from(&k.pk), Ok(true)) || matches!(signed.has_signature_from(&strangers[0].pk), Ok(true)) {
                            ctx.violation("make_signed_assertion/not-verified", "an envelope carrying make_signed_assertion(sig, note) does not verify for the signer (or verifies for a stranger)", jhex(&signed));
                        }
                    }
                }
            }
            // direct signature checks
            let sig = k.sign(&d32(&base.subject()));
            if k.scheme.starts_with("SshEcdsa") && Signature::try_from(dcbor::CBOR::from(sig.clone())).is_err() {
                ctx.violation(&format!("dependency-rejects-own-signature/{}", k.scheme), "a freshly made SSH ECDSA signature cannot be read back / verified by bc-components+ssh-key (about 1% of signatures)", jhex(&base));
                continue;
            }
            if !base.is_verified_signature(&sig, &k.pk) || base.verify_signature(&sig, &k.pk).is_err() {
                ctx.violation("direct/valid-rejected", "is_verified_signature rejected a valid signature", jhex(&base));
            }
            if base.is_verified_signature(&sig, &strangers[0].pk) || base.add_assertion("x", 1).replace_subject(Envelope::new("y")).is_verified_signature(&sig, &k.pk) {
                ctx.violation("direct/invalid-accepted", "is_verified_signature accepted a signature for another key or subject", jhex(&base));
            }
        }
        ctx.sample(|| J::obj(vec![("case", J::i(case)), ("history", J::Arr(hist.iter().map(J::s).collect())), ("envelope", J::s(brief(&tree_of(&e))))]));
    }
    let _ = Rng::new(0);
}
