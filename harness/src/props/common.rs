//! Helpers shared by the property monitors.

use bc_envelope::prelude::*;

use crate::ctx::Ctx;
use crate::gen::env_hex;
use crate::json::J;
use crate::pos::{self, tree_of, tree_of_spec, T};
use crate::spec;
use crate::trap;

pub fn env_bytes(e: &Envelope) -> Vec<u8> {
    e.tagged_cbor().to_cbor_data()
}

/// class of a tree difference: the text after the path, digits and hex stripped
pub fn diff_class(d: &str) -> String {
    let rest = d.splitn(2, ": ").nth(1).unwrap_or(d);
    rest.split_whitespace().next().unwrap_or("?").to_string()
}

/// S1 always-on invariant: the envelope's own serialisation must be accepted by the
/// specification recogniser and the digest the library reports at every position must equal
/// the digest the specification defines for what was serialised there.
/// Returns the library-side tree when everything agrees.
pub fn check_spec(ctx: &mut Ctx, e: &Envelope, what: &str) -> Option<T> {
    ctx.count("s1_checks");
    let bytes = match trap::guard(|| env_bytes(e)) {
        Ok(b) => b,
        Err(p) => {
            ctx.violation(&format!("s1/encode-panic/{}", p.signature()), &format!("{}: encoding panicked: {:?}", what, p), J::Null);
            return None;
        }
    };
    let lib = tree_of(e);
    match spec::parse_envelope(&bytes) {
        Err(r) => {
            let class: String = r.0.chars().map(|c| if c.is_ascii_digit() { '#' } else { c }).collect();
            ctx.violation(
                &format!("s1/reject/{}", class),
                &format!("{}: specification recogniser rejects the library's serialisation: {}", what, r.0),
                J::obj(vec![("what", J::s(what)), ("envelope_hex", J::s(hex::encode(&bytes)))]),
            );
            None
        }
        Ok(s) => {
            let st = tree_of_spec(&s, &bytes);
            if let Some(d) = pos::diff(&lib, &st) {
                ctx.violation(
                    &format!("s1/digest-tree/{}", diff_class(&d)),
                    &format!("{}: library vs specification digest tree: {}", what, d),
                    J::obj(vec![("what", J::s(what)), ("envelope_hex", J::s(hex::encode(&bytes)))]),
                );
                None
            } else {
                Some(lib)
            }
        }
    }
}

pub fn jhex(e: &Envelope) -> J {
    J::s(env_hex(e))
}

pub fn kind_hist(ctx: &mut Ctx, t: &T, prefix: &str) {
    for (_, n) in t.flatten() {
        ctx.count(&format!("{}kind_{:?}", prefix, n.kind));
    }
}

/// Short human-readable rendering for samples (no formatting registries involved).
pub fn brief(t: &T) -> String {
    fn rec(t: &T, out: &mut String, budget: &mut i32) {
        if *budget <= 0 {
            out.push('…');
            return;
        }
        *budget -= 1;
        use spec::Kind::*;
        match t.kind {
            Leaf => {
                let l = t.leaf.as_ref().unwrap();
                out.push_str(&format!("L<{}>", hex::encode(&l[..l.len().min(8)])));
            }
            KnownValue => out.push_str(&format!("'{}'", t.kv.unwrap())),
            Elided => out.push_str("ELIDED"),
            Encrypted => out.push_str("ENCRYPTED"),
            Compressed => out.push_str("COMPRESSED"),
            Wrapped => {
                out.push('{');
                rec(&t.children[0], out, budget);
                out.push('}');
            }
            Assertion => {
                rec(&t.children[0], out, budget);
                out.push(':');
                rec(&t.children[1], out, budget);
            }
            Node => {
                rec(&t.children[0], out, budget);
                out.push('[');
                for (i, c) in t.children[1..].iter().enumerate() {
                    if i > 0 {
                        out.push(',');
                    }
                    rec(c, out, budget);
                }
                out.push(']');
            }
        }
    }
    let mut s = String::new();
    let mut b = 40;
    rec(t, &mut s, &mut b);
    s
}

use bc_components::SymmetricKey;
use crate::gen::{self, GenCfg, Route, M};
use crate::rng::Rng;

/// One random envelope of the universe: model + real envelope built through a random API route.
pub fn universe(rng: &mut Rng, cfg: GenCfg, case: u64) -> (M, Envelope) {
    let m = gen::model_for_case(rng, cfg, case);
    let route = if m.has_node_subject_node() { Route::Decode } else { *rng.pick(&[Route::Plain, Route::Shuffled, Route::ReplaceSubject, Route::Detour, Route::Decode]) };
    let e = gen::build(&m, route, rng);
    // one case in 14: the envelope is used THREE times inside another one, at two depths, by cloning the one
    // value (the clones share their allocation; a re-decoded copy does not) - results may not depend on that
    fn msize(m: &M) -> usize {
        match m {
            M::Node(s, a) => 1 + msize(s) + a.iter().map(msize).sum::<usize>(),
            M::Assertion(p, o) => 1 + msize(p) + msize(o),
            M::Wrapped(x) => 1 + msize(x),
            _ => 1,
        }
    }
    if rng.chance(1, 14) && msize(&m) <= 40 && !m.has_node_subject_node() && !matches!(m, M::Assertion(..)) {
        let txt = |s: &str| M::Leaf(crate::spec::Item::Text(s.into()));
        let deep_m = M::Wrapped(Box::new(M::Node(Box::new(txt("holder")), vec![M::Assertion(Box::new(txt("deep")), Box::new(m.clone()))])));
        let m2 = M::Node(Box::new(txt("aliased")), vec![M::Assertion(Box::new(txt("one")), Box::new(m.clone())), M::Assertion(Box::new(txt("two")), Box::new(m.clone())), M::Assertion(Box::new(txt("three")), Box::new(deep_m))]);
        let deep_e = Envelope::new("holder").add_assertion("deep", e.clone()).wrap_envelope();
        let e2 = Envelope::new("aliased").add_assertion("three", deep_e).add_assertion("one", e.clone()).add_assertion("two", e.clone());
        return (m2, e2);
    }
    (m, e)
}

/// model for the deterministic sweep over special numbers (known values and integers around every
/// table-size / width boundary): index i of `adv::special_numbers()`
pub fn special_number_model(i: usize) -> M {
    let sp = crate::adv::special_numbers();
    let n = sp[i % sp.len()];
    let other = sp[(i * 7 + 3) % sp.len()];
    M::Node(
        Box::new(M::Known(n)),
        vec![
            M::Assertion(Box::new(M::Known(n)), Box::new(M::Leaf(crate::spec::Item::UInt(n)))),
            M::Assertion(Box::new(M::Known(other)), Box::new(M::Known(n))),
            M::Assertion(Box::new(M::Leaf(crate::spec::Item::NInt(n))), Box::new(M::Wrapped(Box::new(M::Known(n))))),
        ],
    )
}

pub fn special_numbers_len() -> u64 {
    crate::adv::special_numbers().len() as u64
}

pub fn cfg_for(ctx: &Ctx, case: u64) -> GenCfg {
    let mut cfg = match (ctx.tier, case % 3) {
        (_, 0) => GenCfg::small(),
        (crate::ctx::Tier::Quick, _) => GenCfg::medium(),
        (crate::ctx::Tier::Thorough, 1) => GenCfg::medium(),
        _ => GenCfg::large(),
    };
    cfg.markers = true;
    cfg
}

pub fn fresh_key(rng: &mut Rng) -> SymmetricKey {
    SymmetricKey::from_data_ref(rng.bytes(32)).unwrap()
}
