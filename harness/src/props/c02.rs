//! C02 — eliding, encrypting or compressing any part never changes any digest.

use std::collections::HashSet;

use bc_components::{Digest, DigestProvider};
use bc_envelope::prelude::*;

use super::common::*;
use crate::ctx::Ctx;
use crate::gen::{self, Act, ACTS};
use crate::json::J;
use crate::pos::{path_str, tree_of, T};
use crate::rng::Rng;
use crate::spec::Kind;
use crate::trap;

/// every path of `after` must exist in `before` with the same digest
pub fn check_preserved(before: &T, after: &T) -> Option<String> {
    for (path, n) in after.flatten() {
        match before.at(&path) {
            None => return Some(format!("{}: position does not exist in the original", path_str(&path))),
            Some(o) => {
                if o.digest != n.digest {
                    return Some(format!("{}: digest {} was {}", path_str(&path), hex::encode(n.digest), hex::encode(o.digest)));
                }
            }
        }
    }
    None
}

pub fn pick_targets(t: &T, rng: &mut Rng) -> Vec<[u8; 32]> {
    let all = t.all_digests();
    let mut out = Vec::new();
    let k = match rng.below(6) {
        0 => 0,
        1 | 2 => 1,
        3 => 2,
        _ => rng.range(1, all.len().min(6)),
    };
    for _ in 0..k {
        out.push(*rng.pick(&all));
    }
    if rng.chance(1, 4) {
        // the deepest element (elision must reach any depth)
        if let Some((_, n)) = t.flatten().iter().max_by_key(|(p, _)| p.len()) {
            out.push(n.digest);
        }
    }
    if rng.chance(1, 5) {
        // a digest that does not occur
        let mut d = [0u8; 32];
        d.copy_from_slice(&rng.bytes(32));
        out.push(d);
    }
    out
}

pub fn run(ctx: &mut Ctx) {
    let total = ctx.n(150_000, 1_000_000);
    for case in ctx.cases(total) {
        ctx.begin_case(case);
        let mut rng = ctx.rng(case);
        let mut cfg = cfg_for(ctx, case);
        // nodes whose subject is a (visible) node: reachable by decoding and by uncompressing /
        // decrypting a node that was used as a subject
        cfg.node_subject = case % 4 == 0;
        let (_m, e0) = universe(&mut rng, cfg, case);
        let e0 = if case % 7 == 0 && e0.is_node() {
            ctx.count("node_subject_via_uncompress");
            e0.compress().unwrap().add_assertion("outer", case).uncompress_subject().unwrap()
        } else {
            e0
        };
        // once in a while a leaf wrapped 4097..6000 times (far deeper than anything else here): obscuring its core keeps
        // the digest and does not panic - and nothing about the calls that follow on this thread changes
        if case % 3001 == 5 {
            ctx.eval();
            ctx.count("very_deep_wraps");
            let depth = *rng.pick(&[4097usize, 5000, 6000]);
            let core = Envelope::new(format!("core-{}", case));
            let mut deep = core.clone();
            for _ in 0..depth {
                deep = deep.wrap_envelope();
            }
            let set = gen::digest_set(&[gen::root_digest(&core)]);
            for act in ACTS {
                let k2 = fresh_key(&mut rng);
                match trap::guard(|| deep.elide_removing_set_with_action(&set, &gen::action(act, &k2))) {
                    Ok(r) => {
                        if gen::root_digest(&r) != gen::root_digest(&deep) {
                            ctx.violation(&format!("very-deep/root-digest/{:?}", act), "obscuring the core of a very deeply wrapped leaf changed the root digest", J::i(depth as u64));
                        }
                    }
                    Err(p) => ctx.violation(&format!("very-deep/panic/{:?}/{}", act, p.signature()), &format!("{:?}", p), J::i(depth as u64)),
                }
            }
        }
        let key = fresh_key(&mut rng);
        // every 25th case: an assertion decorated twice without wrapping, its bare assertion present or obscured
        let e0 = if case % 25 == 3 {
            let core = *rng.pick(&[None, Some(Act::Elide), Some(Act::Encrypt), Some(Act::Compress)]);
            match trap::guard(|| gen::twice_decorated(&mut rng.fork(), core, &key)) {
                Ok((x, _)) => x,
                Err(p) => {
                    ctx.violation(&format!("twice-decorated/build-panic/{}", p.signature()), &format!("{:?}", p), J::s(format!("{:?}", core)));
                    continue;
                }
            }
        } else {
            e0
        };
        // half of the cases start from an envelope that already contains obscured elements
        let e = if rng.chance(1, 2) {
            let mut r2 = rng.fork();
            match trap::guard(|| gen::obscure_random(&e0, &mut r2, 2, &key)) {
                Ok(x) => x,
                Err(p) => {
                    ctx.violation(&format!("elide-panic/pre-obscure/{}", p.signature()), &format!("{:?}", p), jhex(&e0));
                    continue;
                }
            }
        } else {
            e0.clone()
        };
        let before = tree_of(&e);
        if before.count() > 1 {
            ctx.nontrivial(before.shape_hash());
        }
        let has_hidden = before.flatten().iter().any(|(_, n)| matches!(n.kind, Kind::Elided | Kind::Encrypted));
        if before.has_obscured() {
            ctx.count("inputs_with_obscured_parts");
        }
        if before.has_twice_decorated_assertion(false) {
            ctx.count("inputs_with_twice_decorated_assertion");
        }
        if before.has_twice_decorated_assertion(true) {
            ctx.count("inputs_with_twice_decorated_assertion_obscured_core");
        }
        if before.flatten().iter().any(|(_, n)| n.kind == Kind::Node && n.children[0].kind == Kind::Node) {
            ctx.count("inputs_with_node_subject_node");
        }
        let proof_target = *rng.pick(&before.all_digests());
        let proof = e.proof_contains_target(&Digest::from_data(proof_target));

        for _ in 0..3 {
            let targets = pick_targets(&before, &mut rng);
            let set: HashSet<Digest> = gen::digest_set(&targets);
            let revealing = rng.chance(1, 2);
            let act = *rng.pick(&ACTS);
            if act == Act::Compress && has_hidden {
                // (since the repair of D5d the Compress action leaves elided / encrypted elements alone)
                ctx.count("compress_action_over_hidden_elements");
            }
            ctx.eval();
            ctx.count(&format!("op_{:?}_{}", act, if revealing { "revealing" } else { "removing" }));
            let replay = || {
                J::obj(vec![
                    ("envelope_hex", jhex(&e)),
                    ("targets", J::Arr(targets.iter().map(|d| J::s(hex::encode(d))).collect())),
                    ("revealing", J::Bool(revealing)),
                    ("action", J::s(format!("{:?}", act))),
                ])
            };
            let mut r4 = rng.fork();
            let r = match trap::guard(|| gen::elide_via_any_entry_point(&e, &targets, revealing, act, &key, &mut r4)) {
                Ok(r) => r,
                Err(p) => {
                    ctx.violation(&format!("elide-panic/{:?}/{}", act, p.signature()), &format!("{:?}", p), replay());
                    continue;
                }
            };
            let after = tree_of(&r);
            if after.digest != before.digest {
                ctx.violation(&format!("root-digest/{:?}", act), "root digest changed", replay());
            }
            if let Some(d) = check_preserved(&before, &after) {
                ctx.violation(&format!("position-digest/{:?}", act), &d, replay());
            }
            check_spec(ctx, &r, "after elide_set_with_action");
            if after != before {
                ctx.count("transformed");
                ctx.nontrivial(after.shape_hash() ^ 0x5555);
            }
            // dependants stay valid: a proof made before still confirms against the result's root
            if let Some(p) = &proof {
                ctx.count("proof_followons");
                let ok_before = e.confirm_contains_target(&Digest::from_data(proof_target), p);
                let ok_after = r.confirm_contains_target(&Digest::from_data(proof_target), p);
                if ok_before && !ok_after {
                    ctx.violation("proof-invalidated", "proof made before the transformation no longer confirms", replay());
                }
            }
            // the array/target entry points are the same function on the same set
            if rng.chance(1, 8) && !targets.is_empty() {
                let ds: Vec<Digest> = targets.iter().map(|d| Digest::from_data(*d)).collect();
                let refs: Vec<&dyn DigestProvider> = ds.iter().map(|d| d as &dyn DigestProvider).collect();
                let r2 = e.elide_array_with_action(&refs, revealing, &ObscureAction::Elide);
                let r3 = e.elide_set(&set, revealing);
                ctx.count("array_vs_set");
                if tree_of(&r2) != tree_of(&r3) {
                    ctx.violation("array-vs-set", "elide_array and elide_set disagree", replay());
                }
            }
        }

        // whole-envelope operations
        ctx.eval();
        let el = e.elide();
        if gen::root_digest(&el) != before.digest || !el.is_elided() {
            ctx.violation("whole/elide", "elide() changed the digest or is not Elided", jhex(&e));
        }
        if let Ok(c) = trap::guard(|| e.compress()) {
            ctx.count("whole_compress");
            match c {
                Ok(c) => {
                    if gen::root_digest(&c) != before.digest {
                        ctx.violation("whole/compress", "compress() changed the digest", jhex(&e));
                    }
                    check_spec(ctx, &c, "compress");
                    // (the placeholder must also still hold the envelope)
                    if c.is_compressed() {
                        match trap::guard(|| c.uncompress()) {
                            Ok(Ok(u)) if env_bytes(&u) == env_bytes(&e) => {}
                            Ok(Ok(_)) => ctx.violation("whole/compress-uncompress", "uncompress(compress(e)) is not e", jhex(&e)),
                            Ok(Err(err)) => ctx.violation("whole/compress-uncompress/err", &format!("uncompress(compress(e)) failed: {}", err), jhex(&e)),
                            Err(p) => ctx.violation(&format!("whole/compress-uncompress/panic/{}", p.signature()), &format!("{:?}", p), jhex(&e)),
                        }
                    }
                }
                Err(_) => {
                    if !matches!(before.kind, Kind::Elided | Kind::Encrypted) {
                        ctx.violation("whole/compress-err", "compress() failed on a present envelope", jhex(&e));
                    }
                }
            }
        }
        match trap::guard(|| e.compress_subject()) {
            Ok(Ok(c)) => {
                ctx.count("whole_compress_subject");
                let a = tree_of(&c);
                if a.digest != before.digest {
                    ctx.violation("whole/compress_subject", "compress_subject() changed the digest", jhex(&e));
                }
                if let Some(d) = check_preserved(&before, &a) {
                    ctx.violation("whole/compress_subject/position", &d, jhex(&e));
                }
                check_spec(ctx, &c, "compress_subject");
            }
            Ok(Err(_)) => {}
            Err(p) => ctx.violation(&format!("whole/compress_subject/panic/{}", p.signature()), &format!("{:?}", p), jhex(&e)),
        }
        match trap::guard(|| e.encrypt_subject(&key)) {
            Ok(Ok(x)) => {
                ctx.count("whole_encrypt_subject");
                let a = tree_of(&x);
                if a.digest != before.digest {
                    ctx.violation("whole/encrypt_subject", "encrypt_subject() changed the digest", jhex(&e));
                }
                if let Some(d) = check_preserved(&before, &a) {
                    ctx.violation("whole/encrypt_subject/position", &d, jhex(&e));
                }
                check_spec(ctx, &x, "encrypt_subject");
            }
            Ok(Err(_)) => {}
            Err(p) => ctx.violation(&format!("whole/encrypt_subject/panic/{}", p.signature()), &format!("{:?}", p), jhex(&e)),
        }
        match trap::guard(|| e.encrypt(&key)) {
            Ok(x) => {
                ctx.count("whole_encrypt");
                // encrypt() = wrap, then encrypt the subject: the digest preserved is the wrapped envelope's
                if gen::root_digest(&x) != gen::root_digest(&e.wrap_envelope()) {
                    ctx.violation("whole/encrypt", "encrypt() does not have the wrapped envelope's digest", jhex(&e));
                }
                check_spec(ctx, &x, "encrypt");
                match trap::guard(|| x.decrypt(&key)) {
                    Ok(Ok(u)) if env_bytes(&u) == env_bytes(&e) => {}
                    Ok(Ok(_)) => ctx.violation("whole/encrypt-decrypt", "decrypt(encrypt(e)) is not e", jhex(&e)),
                    Ok(Err(err)) => ctx.violation("whole/encrypt-decrypt/err", &format!("decrypt(encrypt(e)) failed: {}", err), jhex(&e)),
                    Err(p) => ctx.violation(&format!("whole/encrypt-decrypt/panic/{}", p.signature()), &format!("{:?}", p), jhex(&e)),
                }
            }
            Err(p) => ctx.violation(&format!("whole/encrypt/panic/{}", p.signature()), &format!("{:?}", p), jhex(&e)),
        }
        ctx.sample(|| J::obj(vec![("case", J::i(case)), ("envelope", J::s(brief(&before))), ("proof_target", J::s(hex::encode(proof_target)))]));
    }
}
