//! C15 — traversal and queries agree with the envelope's structure.

use std::cell::RefCell;
use std::collections::HashSet;

use bc_components::Digest;
use bc_envelope::prelude::*;
use bc_envelope::EnvelopeError;

use super::common::*;
use crate::ctx::Ctx;
use crate::gen;
use crate::json::J;
use crate::pos::{self, children_of, d32, kind_of, tree_of, Edge, T};
use crate::rng::Rng;
use crate::spec::{self, Item, Kind, D32};
use crate::trap;
use unicode_normalization::UnicodeNormalization;

fn nfc(s: &str) -> String {
    s.nfc().collect()
}

fn edge_type(e: Option<Edge>) -> EdgeType {
    match e {
        None => EdgeType::None,
        Some(Edge::Subject) => EdgeType::Subject,
        Some(Edge::Assertion(_)) => EdgeType::Assertion,
        Some(Edge::Predicate) => EdgeType::Predicate,
        Some(Edge::Object) => EdgeType::Object,
        Some(Edge::Wrapped) => EdgeType::Wrapped,
    }
}

/// reference structure walk: (digest, kind, level, edge, parent visit index)
fn ref_structure(e: &Envelope) -> Vec<(D32, Kind, usize, EdgeType, Option<usize>)> {
    fn rec(e: &Envelope, level: usize, edge: Option<Edge>, parent: Option<usize>, out: &mut Vec<(D32, Kind, usize, EdgeType, Option<usize>)>) {
        let me = out.len();
        out.push((d32(e), kind_of(e), level, edge_type(edge), parent));
        for (ed, c) in children_of(e) {
            rec(&c, level + 1, Some(ed), Some(me), out);
        }
    }
    let mut out = Vec::new();
    rec(e, 0, None, None, &mut out);
    out
}

/// reference tree walk (nodes hidden): level = non-node proper ancestors + assertion edges
fn ref_tree(e: &Envelope) -> Vec<(D32, Kind, usize, Option<usize>)> {
    // returns the visit index that children hanging off this element's "subject position" use as parent
    fn rec(e: &Envelope, level: usize, parent: Option<usize>, out: &mut Vec<(D32, Kind, usize, Option<usize>)>) -> Option<usize> {
        let kind = kind_of(e);
        if kind == Kind::Node {
            let ch = children_of(e);
            let subj_parent = rec(&ch[0].1, level, parent, out);
            for (_, a) in ch.iter().skip(1) {
                rec(a, level + 1, subj_parent, out);
            }
            parent
        } else {
            let me = out.len();
            out.push((d32(e), kind, level, parent));
            for (_, c) in children_of(e) {
                rec(&c, level + 1, Some(me), out);
            }
            Some(me)
        }
    }
    let mut out = Vec::new();
    rec(e, 0, None, &mut out);
    out
}

fn err_kind(e: &anyhow::Error) -> String {
    match e.downcast_ref::<EnvelopeError>() {
        Some(k) => format!("{:?}", k),
        None => "other".into(),
    }
}

fn check_walk(ctx: &mut Ctx, e: &Envelope) {
    let replay = || jhex(e);
    // structure mode
    ctx.eval();
    let seen: RefCell<Vec<(D32, Kind, usize, EdgeType, Option<usize>)>> = RefCell::new(Vec::new());
    let r = trap::guard(|| {
        let visitor = |x: Envelope, level: usize, edge: EdgeType, parent: Option<usize>| -> Option<usize> {
            let mut s = seen.borrow_mut();
            s.push((d32(&x), kind_of(&x), level, edge, parent));
            Some(s.len() - 1)
        };
        e.walk(false, &visitor);
    });
    if let Err(p) = r {
        ctx.violation(&format!("walk-panic/{}", p.signature()), &format!("{:?}", p), replay());
        return;
    }
    let want = ref_structure(e);
    let got = seen.into_inner();
    if got != want {
        let i = got.iter().zip(want.iter()).position(|(a, b)| a != b).unwrap_or(got.len().min(want.len()));
        let class = if got.len() != want.len() {
            "count"
        } else if got[i].0 != want[i].0 || got[i].1 != want[i].1 {
            "order"
        } else if got[i].2 != want[i].2 {
            "level"
        } else if got[i].3 != want[i].3 {
            "edge"
        } else {
            "parent"
        };
        ctx.violation(&format!("walk-structure/{}", class), &format!("visit #{}: got {:?} want {:?} (visited {} of {})", i, got.get(i).map(|g| (g.1, g.2, g.3, g.4)), want.get(i).map(|g| (g.1, g.2, g.3, g.4)), got.len(), want.len()), replay());
    }
    ctx.count_n("structure_visits_checked", want.len() as u64);
    // the same walk with a visitor that hands a context down only from every other element: a child receives
    // exactly what the visit of ITS parent returned - None when that visit returned None
    {
        ctx.eval();
        ctx.count("mixed_context_walks");
        let seen2: RefCell<Vec<Option<usize>>> = RefCell::new(Vec::new());
        let r = trap::guard(|| {
            let visitor = |_x: Envelope, _level: usize, _edge: EdgeType, parent: Option<usize>| -> Option<usize> {
                let mut s = seen2.borrow_mut();
                s.push(parent);
                let me = s.len() - 1;
                if me % 2 == 0 { Some(me) } else { None }
            };
            e.walk(false, &visitor);
        });
        if r.is_ok() {
            let got2 = seen2.into_inner();
            let bad = want.iter().enumerate().position(|(i, w)| {
                let expect = match w.4 {
                    Some(p) if p % 2 == 0 => Some(p),
                    _ => None,
                };
                got2.get(i) != Some(&expect)
            });
            if let Some(i) = bad {
                ctx.violation("walk-structure/context-threading", &format!("visit #{} received context {:?}; its parent is visit {:?}, which returned {}", i, got2.get(i), want[i].4, if want[i].4.map(|p| p % 2 == 0).unwrap_or(false) { "Some" } else { "None" }), replay());
            }
        }
    }
    // tree mode
    ctx.eval();
    let seen: RefCell<Vec<(D32, Kind, usize, Option<usize>)>> = RefCell::new(Vec::new());
    let edges_ok = RefCell::new(true);
    let r = trap::guard(|| {
        let visitor = |x: Envelope, level: usize, edge: EdgeType, parent: Option<usize>| -> Option<usize> {
            let mut s = seen.borrow_mut();
            if edge != EdgeType::None {
                *edges_ok.borrow_mut() = false;
            }
            s.push((d32(&x), kind_of(&x), level, parent));
            Some(s.len() - 1)
        };
        e.walk(true, &visitor);
    });
    if let Err(p) = r {
        ctx.violation(&format!("walk-tree-panic/{}", p.signature()), &format!("{:?}", p), replay());
        return;
    }
    let want = ref_tree(e);
    let got = seen.into_inner();
    if got != want {
        let i = got.iter().zip(want.iter()).position(|(a, b)| a != b).unwrap_or(got.len().min(want.len()));
        let class = if got.len() != want.len() {
            "count"
        } else if got[i].0 != want[i].0 || got[i].1 != want[i].1 {
            "order"
        } else if got[i].2 != want[i].2 {
            "level"
        } else {
            "parent"
        };
        ctx.violation(&format!("walk-tree/{}", class), &format!("visit #{}: got {:?} want {:?}", i, got.get(i).map(|g| (g.1, g.2, g.3)), want.get(i).map(|g| (g.1, g.2, g.3))), replay());
    }
    if got.iter().any(|g| g.1 == Kind::Node) {
        ctx.violation("walk-tree/node-visited", "tree mode visited a node", replay());
    }
    ctx.count_n("tree_visits_checked", want.len() as u64);
}

fn check_counts_and_digests(ctx: &mut Ctx, e: &Envelope, t: &T) {
    let replay = || jhex(e);
    ctx.eval();
    ctx.count("elements_count_checked");
    if e.elements_count() != t.count() {
        ctx.violation("elements_count", &format!("elements_count()={} but the structure has {}", e.elements_count(), t.count()), replay());
    }
    // digests(n) == { d(x), d(subject(x)) : level(x) < n }
    let st = ref_structure(e);
    let positions = pos::positions(e);
    let depth = t.depth();
    let mut limits: Vec<usize> = (0..=depth + 1).collect();
    limits.push(usize::MAX);
    for n in limits {
        ctx.eval();
        ctx.count("digests_level_checked");
        let mut want: HashSet<D32> = HashSet::new();
        for (i, (d, kind, level, _, _)) in st.iter().enumerate() {
            if *level < n {
                want.insert(*d);
                let subj = if *kind == Kind::Node { d32(&children_of(&positions[i].1)[0].1) } else { *d };
                want.insert(subj);
            }
        }
        let got: HashSet<D32> = e.digests(n).iter().map(|d| *d.data()).collect();
        if got != want {
            ctx.violation("digests-level", &format!("digests({}) has {} entries, reference {}", n, got.len(), want.len()), replay());
        }
    }
    let deep: HashSet<D32> = e.deep_digests().iter().map(|d| *d.data()).collect();
    let all: HashSet<D32> = t.all_digests().into_iter().collect();
    if deep != all {
        ctx.violation("deep_digests", "deep_digests() differs from the set of all element digests", replay());
    }
    let shallow: HashSet<D32> = e.shallow_digests().iter().map(|d| *d.data()).collect();
    let s2: HashSet<D32> = e.digests(2).iter().map(|d| *d.data()).collect();
    if shallow != s2 {
        ctx.violation("shallow_digests", "shallow_digests() != digests(2)", replay());
    }
    // accessors
    ctx.eval();
    ctx.count("accessors_checked");
    let ch = children_of(e);
    if t.kind == Kind::Node {
        if d32(&e.subject()) != t.children[0].digest || e.assertions().len() != t.children.len() - 1 || !e.has_assertions() {
            ctx.violation("accessors/node", "subject()/assertions() disagree with the node", replay());
        }
        for (i, a) in e.assertions().iter().enumerate() {
            if d32(a) != d32(&ch[i + 1].1) {
                ctx.violation("accessors/assertion-order", "assertions() order differs from the structure", replay());
            }
        }
    } else if d32(&e.subject()) != t.digest || !e.assertions().is_empty() || e.has_assertions() {
        ctx.violation("accessors/non-node", "subject()/assertions() wrong for a non-node", replay());
    }
    // as_* / try_* accessors
    {
        let lb = |x: &Envelope| x.as_leaf().map(|c| c.to_cbor_data());
        let ok = (e.as_assertion().is_some() == (t.kind == Kind::Assertion))
            && (e.try_assertion().is_ok() == (t.kind == Kind::Assertion))
            && (e.as_predicate().map(|p| d32(&p)) == if t.kind == Kind::Assertion { Some(t.children[0].digest) } else { None })
            && (e.as_object().map(|p| d32(&p)) == if t.kind == Kind::Assertion { Some(t.children[1].digest) } else { None })
            && (e.try_predicate().is_ok() == (t.kind == Kind::Assertion))
            && (e.try_object().is_ok() == (t.kind == Kind::Assertion))
            && (lb(e) == if t.kind == Kind::Leaf { t.leaf.clone() } else { None })
            && (e.try_leaf().is_ok() == (t.kind == Kind::Leaf))
            && (e.as_known_value().map(|k| k.value()) == if t.kind == Kind::KnownValue { t.kv } else { None })
            && (e.try_known_value().is_ok() == (t.kind == Kind::KnownValue));
        if !ok {
            ctx.violation("accessors/as_x", "as_* / try_* accessors disagree with the case", replay());
        }
        let item = t.leaf.as_ref().and_then(|l| spec::parse_item(l).ok());
        let want_bytes = if let Some(Item::Bytes(b)) = &item { Some(b.clone()) } else { None };
        if e.try_byte_string().ok() != want_bytes {
            ctx.violation("accessors/try_byte_string", "try_byte_string disagrees with the leaf", replay());
        }
        let want_true = t.kind == Kind::Leaf && matches!(&item, Some(Item::Simple(21)));
        let want_false = t.kind == Kind::Leaf && matches!(&item, Some(Item::Simple(20)));
        let want_null = t.kind == Kind::Leaf && matches!(&item, Some(Item::Simple(22)));
        let node_subject_leaf = |want: u8| -> bool {
            let mut x = t;
            while x.kind == Kind::Node {
                x = &x.children[0];
            }
            x.kind == Kind::Leaf && matches!(x.leaf.as_ref().and_then(|l| spec::parse_item(l).ok()), Some(Item::Simple(v)) if v == want)
        };
        // is_true / is_false / is_null look at the subject (extract_subject semantics)
        if e.is_true() != (want_true || (t.kind == Kind::Node && node_subject_leaf(21))) || e.is_false() != (want_false || (t.kind == Kind::Node && node_subject_leaf(20))) || e.is_null() != (want_null || (t.kind == Kind::Node && node_subject_leaf(22))) {
            ctx.violation("accessors/is_bool_null", "is_true / is_false / is_null disagree with the subject", replay());
        }
        if t.kind == Kind::Assertion {
            // (typed extraction looks through a node to its subject)
            let chain = |mut x: &T| -> Option<Item> {
                while x.kind == Kind::Node {
                    x = &x.children[0];
                }
                x.leaf.as_ref().and_then(|l| spec::parse_item(l).ok())
            };
            let pi = chain(&t.children[0]);
            let oi = chain(&t.children[1]);
            let txt = |i: &Option<Item>| if let Some(Item::Text(s)) = i { Some(s.clone()) } else { None };
            let sound = |r: anyhow::Result<String>, w: Option<String>, leafkind: bool| match r {
                Ok(v) => Some(nfc(&v)) == w.as_ref().map(|x| nfc(x)),
                Err(_) => !(leafkind && w.is_some()),
            };
            if !sound(e.extract_predicate::<String>(), txt(&pi), t.children[0].kind == Kind::Leaf) || !sound(e.extract_object::<String>(), txt(&oi), t.children[1].kind == Kind::Leaf) {
                ctx.violation("accessors/extract_predicate_object", "extract_predicate / extract_object disagree with the assertion", replay());
            }
        }
    }
    let flags = (e.is_leaf(), e.is_node(), e.is_wrapped(), e.is_known_value(), e.is_assertion(), e.is_encrypted(), e.is_compressed(), e.is_elided());
    let want = (t.kind == Kind::Leaf, t.kind == Kind::Node, t.kind == Kind::Wrapped, t.kind == Kind::KnownValue, t.kind == Kind::Assertion, t.kind == Kind::Encrypted, t.kind == Kind::Compressed, t.kind == Kind::Elided);
    if flags != want {
        ctx.violation("accessors/is_x", "is_* predicates disagree with the case", replay());
    }
    let sk = {
        let mut x = t;
        while x.kind == Kind::Node {
            x = &x.children[0];
        }
        x.kind
    };
    if e.is_subject_assertion() != (sk == Kind::Assertion) || e.is_subject_elided() != (sk == Kind::Elided) || e.is_subject_encrypted() != (sk == Kind::Encrypted) || e.is_subject_compressed() != (sk == Kind::Compressed) || e.is_subject_obscured() != sk.is_obscured() || e.is_obscured() != t.kind.is_obscured() || e.is_internal() != matches!(t.kind, Kind::Node | Kind::Wrapped | Kind::Assertion) {
        ctx.violation("accessors/is_subject_x", "is_subject_* / is_obscured / is_internal disagree with the structure", replay());
    }
}

/// reference: assertions of `t` (a node) whose own subject is an Assertion with predicate digest `pd`
fn ref_matches(t: &T, pd: &D32) -> Vec<usize> {
    if t.kind != Kind::Node {
        return vec![];
    }
    let mut out = Vec::new();
    for (i, a) in t.children.iter().enumerate().skip(1) {
        let s = if a.kind == Kind::Node { &a.children[0] } else { a };
        if s.kind == Kind::Assertion && s.children[0].digest == *pd {
            out.push(i);
        }
    }
    out
}

fn object_of(a: &T) -> &T {
    let s = if a.kind == Kind::Node { &a.children[0] } else { a };
    &s.children[1]
}

fn check_lookups(ctx: &mut Ctx, e: &Envelope, t: &T, rng: &mut Rng) {
    if t.kind != Kind::Node {
        return;
    }
    // candidate predicates: every predicate present (as an elided placeholder, so the lookup is by
    // digest), plus absent ones
    let mut preds: Vec<D32> = Vec::new();
    for a in t.children.iter().skip(1) {
        let s = if a.kind == Kind::Node { &a.children[0] } else { a };
        if s.kind == Kind::Assertion {
            preds.push(s.children[0].digest);
        }
    }
    // ... and, for a predicate that is itself a node, the digest of its bare subject (a different key: only exact
    // digest matches count)
    for a in t.children.iter().skip(1) {
        let s = if a.kind == Kind::Node { &a.children[0] } else { a };
        if s.kind == Kind::Assertion && s.children[0].kind == Kind::Node {
            ctx.count("lookup_by_subject_of_decorated_predicate");
            preds.push(s.children[0].children[0].digest);
        }
    }
    preds.sort();
    preds.dedup();
    let mut absent = [0u8; 32];
    absent.copy_from_slice(&rng.bytes(32));
    preds.push(absent);
    for pd in preds {
        let probe = Envelope::new(Digest::from_data(pd)).elide();
        // an elided envelope with digest pd: build it from the digest itself
        let probe = {
            let _ = probe;
            Envelope::try_from_cbor_data(spec::encode(&Item::Tag(200, Box::new(Item::Bytes(pd.to_vec()))))).unwrap()
        };
        let want = ref_matches(t, &pd);
        let replay = || J::obj(vec![("envelope_hex", jhex(e)), ("predicate_digest", J::s(hex::encode(pd)))]);
        ctx.eval();
        ctx.count(match want.len() {
            0 => "lookup_absent",
            1 => "lookup_unique",
            _ => "lookup_ambiguous",
        });
        // assertions_with_predicate
        match trap::guard(|| e.assertions_with_predicate(probe.clone())) {
            Ok(v) => {
                let got: Vec<D32> = v.iter().map(d32).collect();
                let w: Vec<D32> = want.iter().map(|&i| t.children[i].digest).collect();
                if got != w {
                    ctx.violation("lookup/assertions_with_predicate", &format!("returned {} assertions, reference {}", got.len(), w.len()), replay());
                }
            }
            Err(p) => ctx.violation(&format!("lookup-panic/assertions_with_predicate/{}", p.signature()), &format!("{:?}", p), replay()),
        }
        // single-result forms
        let want_obj: Vec<D32> = want.iter().map(|&i| object_of(&t.children[i]).digest).collect();
        let judge_single = |ctx: &mut Ctx, name: &str, r: Result<anyhow::Result<Option<D32>>, trap::PanicInfo>, want: &[D32], none_is_err: bool| match r {
            Err(p) => ctx.violation(&format!("lookup-panic/{}/{}", name, p.signature()), &format!("{:?}", p), replay()),
            Ok(res) => match (want.len(), res) {
                (1, Ok(Some(d))) if d == want[0] => {}
                (0, Ok(None)) if !none_is_err => {}
                (0, Err(err)) if none_is_err && err_kind(&err) == "NonexistentPredicate" => {}
                (n, Err(err)) if n > 1 && err_kind(&err) == "AmbiguousPredicate" => {}
                (n, other) => ctx.violation(&format!("lookup/{}", name), &format!("{} matches in the structure but the call returned {:?}", n, other.map(|o| o.map(hex::encode)).map_err(|e| e.to_string())), replay()),
            },
        };
        let wa: Vec<D32> = want.iter().map(|&i| t.children[i].digest).collect();
        judge_single(ctx, "assertion_with_predicate", trap::guard(|| e.assertion_with_predicate(probe.clone()).map(|a| Some(d32(&a)))), &wa, true);
        judge_single(ctx, "optional_assertion_with_predicate", trap::guard(|| e.optional_assertion_with_predicate(probe.clone()).map(|a| a.map(|a| d32(&a)))), &wa, false);
        judge_single(ctx, "object_for_predicate", trap::guard(|| e.object_for_predicate(probe.clone()).map(|a| Some(d32(&a)))), &want_obj, true);
        judge_single(ctx, "optional_object_for_predicate", trap::guard(|| e.optional_object_for_predicate(probe.clone()).map(|a| a.map(|a| d32(&a)))), &want_obj, false);
        // typed lookups: the stored value or an error, never None / the default while the predicate is
        // present, never another value
        {
            let stored_text: Vec<Option<String>> = want.iter().map(|&i| { let o = object_of(&t.children[i]); let s = { let mut x = o; while x.kind == Kind::Node { x = &x.children[0]; } x }; s.leaf.as_ref().and_then(|l| spec::parse_item(l).ok()).and_then(|it| if let Item::Text(v) = it { Some(v) } else { None }) }).collect();
            let plain_assertion = want.len() == 1 && t.children[want[0]].kind == Kind::Assertion;
            ctx.count("typed_lookup_checks");
            let r = trap::guard(|| {
                (
                    e.extract_object_for_predicate::<String>(probe.clone()),
                    e.extract_optional_object_for_predicate::<String>(probe.clone()),
                    e.extract_object_for_predicate_with_default::<String>(probe.clone(), "<<default>>".to_string()),
                    e.extract_objects_for_predicate::<String>(probe.clone()),
                    e.try_object_for_predicate::<String>(probe.clone()),
                    e.try_optional_object_for_predicate::<String>(probe.clone()),
                )
            });
            match r {
                Err(p) => ctx.violation(&format!("lookup-panic/typed/{}", p.signature()), &format!("{:?}", p), replay()),
                Ok((plain, opt, dflt, all, try_one, try_opt)) => {
                    match want.len() {
                        0 => {
                            if plain.is_ok() || !matches!(opt, Ok(None)) || !matches!(&dflt, Ok(d) if d == "<<default>>") || !matches!(&all, Ok(v) if v.is_empty()) || try_one.is_ok() || !matches!(try_opt, Ok(None)) {
                                ctx.violation("typed-lookup/absent", "typed lookups of an absent predicate did not report absence", replay());
                            }
                        }
                        1 => {
                            let st = &stored_text[0];
                            let sound = |r: &anyhow::Result<String>| match (r, st) {
                                (Ok(v), Some(s)) => nfc(v) == nfc(s),
                                (Ok(_), None) => false,
                                (Err(_), _) => true,
                            };
                            if !sound(&plain) || !sound(&dflt) || !sound(&try_one) {
                                ctx.violation("typed-lookup/wrong-value", "a typed lookup returned a value the object does not hold (or the default although the predicate is present)", replay());
                            }
                            match &opt {
                                Ok(None) => ctx.violation("typed-lookup/present-reported-absent", "extract_optional_object_for_predicate returned None although the predicate is present exactly once", replay()),
                                Ok(Some(v)) if Some(nfc(v)) != st.as_ref().map(|x| nfc(x)) => ctx.violation("typed-lookup/wrong-value", "optional typed lookup returned another value", replay()),
                                _ => {}
                            }
                            if matches!(try_opt, Ok(None)) {
                                ctx.violation("typed-lookup/present-reported-absent", "try_optional_object_for_predicate returned None although the predicate is present", replay());
                            }
                            if matches!(&dflt, Ok(d) if d == "<<default>>") {
                                ctx.violation("typed-lookup/default-for-present", "extract_object_for_predicate_with_default returned the default although the predicate is present", replay());
                            }
                            if plain_assertion && st.is_some() && (plain.is_err() || dflt.is_err() || !matches!(&opt, Ok(Some(_)))) {
                                ctx.violation("typed-lookup/missing", "typed lookup failed although the unique plain assertion holds a value of that type", replay());
                            }
                        }
                        _ => {
                            if plain.is_ok() || opt.is_ok() || dflt.is_ok() || try_one.is_ok() || try_opt.is_ok() {
                                ctx.violation("typed-lookup/ambiguous-accepted", "a single-result typed lookup succeeded although several assertions match", replay());
                            }
                            if let Ok(v) = &all {
                                let w: Vec<String> = stored_text.iter().flatten().cloned().collect();
                                if stored_text.iter().all(|x| x.is_some()) && v.iter().map(|x| nfc(x)).collect::<Vec<_>>() != w.iter().map(|x| nfc(x)).collect::<Vec<_>>() {
                                    ctx.violation("typed-lookup/objects-differ", "extract_objects_for_predicate returned other values", replay());
                                }
                            }
                        }
                    }
                }
            }
        }
        match trap::guard(|| e.objects_for_predicate(probe.clone())) {
            Ok(v) => {
                let got: Vec<D32> = v.iter().map(d32).collect();
                if got != want_obj {
                    ctx.violation("lookup/objects_for_predicate", &format!("returned {} objects, reference {}", got.len(), want_obj.len()), replay());
                }
            }
            Err(p) => ctx.violation(&format!("lookup-panic/objects_for_predicate/{}", p.signature()), &format!("{:?}", p), replay()),
        }
    }
}

/// typed extraction: the stored value or an error, never another value
fn check_extract(ctx: &mut Ctx, e: &Envelope, t: &T) {
    let s = {
        let mut x = t;
        while x.kind == Kind::Node {
            x = &x.children[0];
        }
        x
    };
    let replay = || jhex(e);
    ctx.eval();
    ctx.count(&format!("extract_subject_kind_{:?}", s.kind));
    let item = s.leaf.as_ref().and_then(|l| spec::parse_item(l).ok());
    macro_rules! int_check {
        ($ty:ty, $name:expr) => {
            match trap::guard(|| e.extract_subject::<$ty>()) {
                Err(p) => ctx.violation(&format!("extract-panic/{}/{}", $name, p.signature()), &format!("{:?}", p), replay()),
                Ok(Ok(v)) => {
                    let ok = match &item {
                        Some(Item::UInt(n)) => (v as i128) == (*n as i128),
                        Some(Item::NInt(n)) => (v as i128) == -1 - (*n as i128),
                        _ => false,
                    };
                    if !ok {
                        // finer signature for the one known cause (dcbor converts a negative integer to an
                        // unsigned type by wrapping) so that any other wrong value is still reported
                        let cause = if matches!(&item, Some(Item::NInt(_))) && <$ty>::MIN == 0 { "/negative-leaf-wraps" } else { "" };
                        ctx.violation(&format!("extract-wrong-value/{}{}", $name, cause), &format!("extract_subject::<{}> returned {} for a subject that does not hold that value", $name, v), replay());
                    }
                }
                Ok(Err(_)) => {
                    let should = match &item {
                        Some(Item::UInt(n)) => (*n as i128) <= (<$ty>::MAX as i128),
                        Some(Item::NInt(n)) => -1 - (*n as i128) >= (<$ty>::MIN as i128),
                        _ => false,
                    };
                    if should {
                        ctx.violation(&format!("extract-missing/{}", $name), &format!("extract_subject::<{}> failed although the subject holds a value of that range", $name), replay());
                    }
                }
            }
        };
    }
    int_check!(u8, "u8");
    int_check!(u16, "u16");
    int_check!(u32, "u32");
    int_check!(u64, "u64");
    int_check!(i8, "i8");
    int_check!(i16, "i16");
    int_check!(i32, "i32");
    int_check!(i64, "i64");
    match trap::guard(|| e.extract_subject::<String>()) {
        Err(p) => ctx.violation(&format!("extract-panic/String/{}", p.signature()), &format!("{:?}", p), replay()),
        Ok(Ok(v)) => {
            // (a text built through the API keeps its spelling in memory; its encoding is the NFC form)
            if !matches!(&item, Some(Item::Text(x)) if nfc(x) == nfc(&v)) {
                ctx.violation("extract-wrong-value/String", "extract_subject::<String> returned a string the subject does not hold", replay());
            }
        }
        Ok(Err(_)) => {
            if matches!(&item, Some(Item::Text(_))) {
                ctx.violation("extract-missing/String", "extract_subject::<String> failed on a text leaf", replay());
            }
        }
    }
    match trap::guard(|| e.extract_subject::<bool>()) {
        Err(p) => ctx.violation(&format!("extract-panic/bool/{}", p.signature()), &format!("{:?}", p), replay()),
        Ok(Ok(v)) => {
            if !matches!(&item, Some(Item::Simple(x)) if (*x == 21) == v && (*x == 20 || *x == 21)) {
                ctx.violation("extract-wrong-value/bool", "extract_subject::<bool> returned a value the subject does not hold", replay());
            }
        }
        Ok(Err(_)) => {
            if matches!(&item, Some(Item::Simple(20 | 21))) {
                ctx.violation("extract-missing/bool", "extract_subject::<bool> failed on a boolean leaf", replay());
            }
        }
    }
    match trap::guard(|| e.extract_subject::<dcbor::ByteString>()) {
        Err(p) => ctx.violation(&format!("extract-panic/ByteString/{}", p.signature()), &format!("{:?}", p), replay()),
        Ok(Ok(v)) => {
            if !matches!(&item, Some(Item::Bytes(x)) if x.as_slice() == v.data()) {
                ctx.violation("extract-wrong-value/ByteString", "extract_subject::<ByteString> returned other bytes", replay());
            }
        }
        Ok(Err(_)) => {
            if matches!(&item, Some(Item::Bytes(_))) {
                ctx.violation("extract-missing/ByteString", "extract_subject::<ByteString> failed on a byte string leaf", replay());
            }
        }
    }
    match trap::guard(|| e.extract_subject::<f64>()) {
        Err(p) => ctx.violation(&format!("extract-panic/f64/{}", p.signature()), &format!("{:?}", p), replay()),
        Ok(Ok(v)) => {
            let ok = match &item {
                Some(Item::Float(f)) => (f.is_nan() && v.is_nan()) || *f == v,
                Some(Item::UInt(n)) => v == *n as f64 && (v as u64) == *n,
                Some(Item::NInt(n)) => v == -1.0 - (*n as f64),
                _ => false,
            };
            if !ok {
                ctx.violation("extract-wrong-value/f64", &format!("extract_subject::<f64> returned {} which the subject does not hold", v), replay());
            }
        }
        Ok(Err(_)) => {
            if matches!(&item, Some(Item::Float(_))) {
                ctx.violation("extract-missing/f64", "extract_subject::<f64> failed on a float leaf", replay());
            }
        }
    }
    match trap::guard(|| e.extract_subject::<KnownValue>()) {
        Err(p) => ctx.violation(&format!("extract-panic/KnownValue/{}", p.signature()), &format!("{:?}", p), replay()),
        Ok(Ok(v)) => {
            let ok = s.kv == Some(v.value()) || matches!(&item, Some(Item::Tag(40000, x)) if matches!(**x, Item::UInt(n) if n == v.value()));
            if !ok {
                // the known dcbor cause (a negative integer converted to u64 by wrapping, D12) keeps its own signature
                let cause = if matches!(&item, Some(Item::Tag(40000, x)) if matches!(**x, Item::NInt(_))) { "/negative-leaf-wraps" } else { "" };
                ctx.violation(&format!("extract-wrong-value/KnownValue{}", cause), "extract_subject::<KnownValue> returned a value the subject does not hold", replay());
            }
        }
        Ok(Err(_)) => {
            if s.kind == Kind::KnownValue {
                ctx.violation("extract-missing/KnownValue", "extract_subject::<KnownValue> failed on a known value", replay());
            }
        }
    }
    match trap::guard(|| e.extract_subject::<Envelope>()) {
        Err(p) => ctx.violation(&format!("extract-panic/Envelope/{}", p.signature()), &format!("{:?}", p), replay()),
        Ok(Ok(v)) => {
            // the wrapped content, or - for a leaf that embeds an envelope's tagged CBOR - that envelope
            // (judged by the spec recogniser on the leaf bytes, so the legacy #6.24 leaf alias is fine)
            let embedded = matches!(&item, Some(Item::Tag(200, _))) && s.leaf.as_deref().and_then(|l| spec::parse_envelope(l).ok()).map(|p| p.digest) == Some(d32(&v));
            if !((s.kind == Kind::Wrapped && d32(&v) == s.children[0].digest) || embedded) {
                ctx.violation("extract-wrong-value/Envelope", "extract_subject::<Envelope> returned something other than the wrapped content", replay());
            }
        }
        Ok(Err(_)) => {
            if s.kind == Kind::Wrapped {
                ctx.violation("extract-missing/Envelope", "extract_subject::<Envelope> failed on a wrapped subject", replay());
            }
        }
    }
    match trap::guard(|| e.extract_subject::<Digest>()) {
        Err(p) => ctx.violation(&format!("extract-panic/Digest/{}", p.signature()), &format!("{:?}", p), replay()),
        Ok(Ok(v)) => {
            let ok = (s.kind == Kind::Elided && *v.data() == s.digest) || matches!(&item, Some(Item::Tag(40001, x)) if matches!(&**x, Item::Bytes(b) if b.as_slice() == v.data()));
            if !ok {
                ctx.violation("extract-wrong-value/Digest", "extract_subject::<Digest> returned a digest the subject does not hold", replay());
            }
        }
        Ok(Err(_)) => {}
    }
}

pub fn run(ctx: &mut Ctx) {
    let total = ctx.n(80_000, 4_000_000);
    for case in ctx.cases(total) {
        ctx.begin_case(case);
        let mut rng = ctx.rng(case);
        let mut cfg = cfg_for(ctx, case);
        cfg.node_subject = case % 5 == 0;
        cfg.big = false;
        let (_m, e0) = universe(&mut rng, cfg, case);
        // every 120th case: a deep chain (129..300 levels)
        let e0 = if case % 120 == 13 {
            ctx.count("deep_chain_inputs");
            let adv = gen::adversarial_models();
            let deep: Vec<&(String, gen::M)> = adv.iter().filter(|(l, _)| l.starts_with("deep-chain")).collect();
            gen::build(&deep[(case / 120) as usize % deep.len()].1, gen::Route::Plain, &mut rng)
        } else {
            e0
        };
        // every 7th case: one allocation at several positions and DEPTHS (clones of one Envelope value share it)
        let e0 = if case % 7 == 4 {
            ctx.count("aliased_inputs");
            let shared = if e0.is_node() || e0.is_wrapped() { e0.clone() } else { e0.add_assertion("k", 1) };
            let deep = Envelope::new("holder").add_assertion("deep", shared.clone()).wrap_envelope();
            if rng.chance(1, 2) {
                Envelope::new("aliased").add_assertion("three", deep).add_assertion("one", shared.clone()).add_assertion("two", shared)
            } else {
                shared.clone().add_assertion("again", shared.clone()).add_assertion("wrapped", deep)
            }
        } else {
            e0
        };
        let key = fresh_key(&mut rng);
        let e = if rng.chance(1, 2) { gen::obscure_random(&e0, &mut rng, 2, &key) } else { e0 };
        let t = tree_of(&e);
        if t.count() > 1 {
            ctx.nontrivial(t.shape_hash());
        }
        kind_hist(ctx, &t, "");
        // two equivalent forms with different structure (one occurrence elided / another one) must not
        // share a structural digest
        if !t.has_obscured() && t.count() > 2 {
            let flat = t.flatten();
            let mk = |path: &crate::pos::Path| -> Option<Envelope> {
                let mut t2 = t.clone();
                {
                    let mut cur = &mut t2;
                    for e2 in path.iter() {
                        let idx = cur.edges().iter().position(|x| x == e2)?;
                        cur = &mut cur.children[idx];
                    }
                    *cur = T { kind: Kind::Elided, digest: cur.digest, leaf: None, kv: None, children: vec![] };
                }
                Envelope::try_from_cbor_data(gen::tree_bytes(&t2)).ok()
            };
            let p1 = &flat[rng.range(1, flat.len() - 1)].0;
            let p2 = &flat[rng.range(1, flat.len() - 1)].0;
            if p1 != p2 && !p1.starts_with(p2) && !p2.starts_with(p1) {
                if let (Some(a), Some(b)) = (mk(p1), mk(p2)) {
                    ctx.eval();
                    ctx.count("structural_digest_of_position_variants");
                    if a.structural_digest() == b.structural_digest() || a.structural_digest() == e.structural_digest() {
                        ctx.violation("structural-digest-collision", "two equivalent envelopes whose walks differ (different positions elided) have the same structural digest", J::obj(vec![("a", jhex(&a)), ("b", jhex(&b))]));
                    }
                }
            }
        }
        check_walk(ctx, &e);
        check_counts_and_digests(ctx, &e, &t);
        check_lookups(ctx, &e, &t, &mut rng);
        check_extract(ctx, &e, &t);
        // also on one inner element (queries are used on sub-envelopes too)
        let ps = pos::positions(&e);
        if ps.len() > 1 {
            let (_, sub) = &ps[rng.range(1, ps.len() - 1)];
            let st = tree_of(sub);
            check_walk(ctx, sub);
            check_counts_and_digests(ctx, sub, &st);
            check_lookups(ctx, sub, &st, &mut rng);
            check_extract(ctx, sub, &st);
        }
        ctx.sample(|| J::obj(vec![("case", J::i(case)), ("envelope", J::s(brief(&t))), ("elements", J::i(t.count() as u64)), ("depth", J::i(t.depth() as u64))]));
    }
}
