//! C16 — no operation panics on any envelope (operation catalogue under a panic trap).

use std::collections::HashSet;

use bc_components::{Digest, DigestProvider, Salt, SealedMessage, Signature, SymmetricKey, SSKRGroupSpec, SSKRShare, SSKRSpec, Verifier, ARID};
use bc_envelope::prelude::*;
use bc_envelope::Attachments;
use bc_envelope::extension::expressions::{FunctionsStore, ParametersStore};

use super::c06;
use super::c09::{key_pool, Key};
use super::c10::{recipient_pool, RKey};
use super::common::*;
use crate::ctx::Ctx;
use crate::gen::{self, action, Act, GenCfg, ACTS};
use crate::json::J;
use crate::pos::{self, tree_of};
use crate::rng::Rng;
use crate::spec::{self, encode};
use crate::trap;

pub struct Aux<'a> {
    pub rng: Rng,
    pub key: SymmetricKey,
    pub signers: &'a [Key],
    pub recipients: &'a [RKey],
    /// predicates to probe: present ones, absent ones, known values
    pub preds: Vec<Envelope>,
    /// target digests: present and absent
    pub targets: Vec<Digest>,
    pub other: Envelope,
}

type Op = (&'static str, fn(&Envelope, &mut Aux));

fn p(a: &mut Aux) -> Envelope {
    let i = a.rng.below(a.preds.len());
    a.preds[i].clone()
}
fn tset(a: &mut Aux) -> HashSet<Digest> {
    let k = a.rng.below(4);
    (0..k).map(|_| a.targets[a.rng.below(a.targets.len())].clone()).collect()
}
fn tgt(a: &mut Aux) -> Digest {
    a.targets[a.rng.below(a.targets.len())].clone()
}

macro_rules! ops {
    ($( $name:literal => |$e:ident, $a:ident| $body:block ),* $(,)?) => {
        vec![ $( ($name, (|$e: &Envelope, $a: &mut Aux| { let _ = $a; let _ = $body; }) as fn(&Envelope, &mut Aux)) ),* ]
    };
}

pub fn catalogue() -> Vec<Op> {
    ops![
        // ---- queries
        "query/subject" => |e, a| { e.subject() },
        "query/assertions" => |e, a| { (e.assertions(), e.has_assertions()) },
        "query/as_assertion" => |e, a| { (e.as_assertion(), e.try_assertion().is_ok()) },
        "query/as_predicate" => |e, a| { (e.as_predicate(), e.try_predicate().is_ok()) },
        "query/as_object" => |e, a| { (e.as_object(), e.try_object().is_ok()) },
        "query/as_leaf" => |e, a| { (e.as_leaf(), e.try_leaf().is_ok(), e.try_byte_string().is_ok()) },
        "query/as_known_value" => |e, a| { (e.as_known_value().cloned(), e.try_known_value().is_ok()) },
        "query/is_x" => |e, a| { (e.is_leaf(), e.is_node(), e.is_wrapped(), e.is_known_value(), e.is_assertion(), e.is_encrypted(), e.is_compressed(), e.is_elided()) },
        "query/is_subject_x" => |e, a| { (e.is_subject_assertion(), e.is_subject_encrypted(), e.is_subject_compressed(), e.is_subject_elided(), e.is_subject_obscured(), e.is_internal(), e.is_obscured()) },
        "query/is_bool_null" => |e, a| { (e.is_false(), e.is_true(), e.is_null()) },
        "query/extract_subject_scalars" => |e, a| { (e.extract_subject::<String>().is_ok(), e.extract_subject::<u8>().is_ok(), e.extract_subject::<u64>().is_ok(), e.extract_subject::<i8>().is_ok(), e.extract_subject::<i64>().is_ok(), e.extract_subject::<f64>().is_ok(), e.extract_subject::<f32>().is_ok(), e.extract_subject::<bool>().is_ok(), e.extract_subject::<usize>().is_ok()) },
        "query/extract_subject_types" => |e, a| { (e.extract_subject::<dcbor::ByteString>().is_ok(), e.extract_subject::<dcbor::Date>().is_ok(), e.extract_subject::<Digest>().is_ok(), e.extract_subject::<KnownValue>().is_ok(), e.extract_subject::<Envelope>().is_ok(), e.extract_subject::<bc_envelope::Assertion>().is_ok(), e.extract_subject::<Signature>().is_ok(), e.extract_subject::<SealedMessage>().is_ok(), e.extract_subject::<SSKRShare>().is_ok(), e.extract_subject::<Salt>().is_ok(), e.extract_subject::<ARID>().is_ok(), e.extract_subject::<Function>().is_ok(), e.extract_subject::<Parameter>().is_ok(), e.extract_subject::<bc_components::EncryptedMessage>().is_ok(), e.extract_subject::<bc_components::Compressed>().is_ok()) },
        "query/try_as" => |e, a| { (e.try_as::<String>().is_ok(), e.try_as::<u64>().is_ok(), e.try_as::<i32>().is_ok(), e.try_as::<bool>().is_ok(), e.try_as::<Digest>().is_ok(), e.try_as::<Signature>().is_ok(), e.try_as::<dcbor::Date>().is_ok(), e.try_as::<Function>().is_ok()) },
        "lookup/assertions_with_predicate" => |e, a| { let q = p(a); e.assertions_with_predicate(q) },
        "lookup/assertion_with_predicate" => |e, a| { let q = p(a); (e.assertion_with_predicate(q.clone()).is_ok(), e.optional_assertion_with_predicate(q).is_ok()) },
        "lookup/object_for_predicate" => |e, a| { let q = p(a); e.object_for_predicate(q).is_ok() },
        "lookup/optional_object_for_predicate" => |e, a| { let q = p(a); e.optional_object_for_predicate(q).is_ok() },
        "lookup/objects_for_predicate" => |e, a| { let q = p(a); e.objects_for_predicate(q) },
        "lookup/try_object_for_predicate" => |e, a| { let q = p(a); (e.try_object_for_predicate::<String>(q.clone()).is_ok(), e.try_optional_object_for_predicate::<u64>(q.clone()).is_ok(), e.try_objects_for_predicate::<String>(q).is_ok()) },
        "lookup/extract_object_for_predicate" => |e, a| { let q = p(a); (e.extract_object_for_predicate::<String>(q.clone()).is_ok(), e.extract_optional_object_for_predicate::<u64>(q.clone()).is_ok(), e.extract_object_for_predicate_with_default::<String>(q.clone(), "d".into()).is_ok(), e.extract_objects_for_predicate::<String>(q).is_ok()) },
        "lookup/extract_object_predicate" => |e, a| { (e.extract_object::<String>().is_ok(), e.extract_predicate::<String>().is_ok(), e.extract_object::<KnownValue>().is_ok(), e.extract_predicate::<KnownValue>().is_ok()) },
        "query/elements_count" => |e, a| { e.elements_count() },
        "query/digests" => |e, a| { let n = a.rng.below(5); (e.digests(n).len(), e.deep_digests().len(), e.shallow_digests().len(), e.structural_digest()) },
        "query/compare" => |e, a| { let o = a.other.clone(); (e.is_equivalent_to(&o), e.is_identical_to(&o), e == &o, e.is_identical_to(e)) },
        "query/walk" => |e, a| { let v = |_x: Envelope, _l: usize, _e: EdgeType, p: Option<usize>| -> Option<usize> { Some(p.unwrap_or(0) + 1) }; e.walk(false, &v); e.walk(true, &v); },
        // ---- formatting
        "format/format" => |e, a| { (e.format(), e.format_flat()) },
        "format/format_opt_none" => |e, a| { e.format_opt(None) },
        "format/tree_format" => |e, a| { (e.tree_format(false), e.tree_format(true), e.short_id()) },
        "format/tree_format_with_target" => |e, a| { let t = tset(a); (e.tree_format_with_target(false, &t), e.tree_format_with_target(true, &t)) },
        "format/diagnostic" => |e, a| { (e.diagnostic(), e.diagnostic_annotated()) },
        "format/hex" => |e, a| { (e.hex(), e.hex_opt(true, None), e.hex_opt(false, None)) },
        "format/display_debug" => |e, a| { (format!("{:?}", e).len(), format!("{}", e).len(), e.to_string().len()) },
        "format/summary" => |e, a| { let n = a.rng.below(40); bc_envelope::with_format_context!(|c: &FormatContext| e.summary(n, c)) },
        // ---- serialisation / parsing
        "parse/cbor_roundtrip" => |e, a| { (Envelope::try_from_cbor_data(env_bytes(e)).is_ok(), Envelope::try_from_cbor(e.tagged_cbor()).is_ok(), Envelope::try_from(e.untagged_cbor()).is_ok()) },
        "parse/hostile_bytes" => |e, a| {
            // structural mutants of this envelope's own encoding, through every bytes/CBOR entry point
            if let Ok(item) = spec::parse_item(&env_bytes(e)) {
                for _ in 0..3 {
                    let (m, _) = c06::structural_for_c16(&item, &mut a.rng);
                    let b = encode(&m);
                    let _ = Envelope::try_from_cbor_data(b.clone()).map(|d| (d.format_flat(), d.elements_count()));
                    if let Ok(c) = dcbor::CBOR::try_from_data(&b) {
                        let _ = Envelope::try_from_cbor(c.clone()).is_ok();
                        let _ = Envelope::new(c).format_flat();
                    }
                }
            }
        },
        "parse/ur" => |e, a| { let s = e.ur_string(); Envelope::from_ur_string(s).is_ok() },
        "parse/expression" => |e, a| { (Expression::try_from(e.clone()).map(|x| (x.to_string(), x.function().to_string(), x.objects_for_parameter(parameters::LHS).len(), x.extract_optional_object_for_parameter::<u64>(parameters::RHS).is_ok(), Envelope::from(x))).is_ok(), Expression::try_from((e.clone(), Some(&functions::ADD))).is_ok()) },
        "parse/request" => |e, a| { (Request::try_from(e.clone()).map(|x| (x.to_string(), x.summary(), x.function().name(), x.object_for_parameter(parameters::LHS).is_ok(), x.extract_objects_for_parameter::<String>(parameters::BLANK).is_ok(), x.note().len(), x.date().is_some(), Envelope::from(x))).is_ok(), Request::try_from((e.clone(), Some(&functions::ADD))).is_ok()) },
        "parse/response" => |e, a| { Response::try_from(e.clone()).map(|r| (r.is_ok(), r.is_err(), r.id(), r.result().is_ok(), r.error().is_ok(), r.extract_result::<u64>().is_ok(), r.extract_error::<String>().is_ok(), r.summary(), r.to_string(), Envelope::from(r))).is_ok() },
        "parse/event" => |e, a| { (Event::<String>::try_from(e.clone()).map(|v| (v.to_string(), v.id(), v.content().len(), v.note().len(), v.date().is_some(), Envelope::from(v))).is_ok(), Event::<Envelope>::try_from(e.clone()).map(|v| v.summary()).is_ok()) },
        "parse/function_parameter" => |e, a| { (Function::try_from(e.clone()).map(|f| (f.to_string(), f.name(), f.named_name())).is_ok(), e.try_leaf().and_then(Parameter::try_from).map(|p| (p.to_string(), p.name())).is_ok()) },
        // value types and their registries (no envelope involved beyond the random numbers)
        "types/value_types" => |e, a| {
            let n = a.rng.below(3000) as u64;
            let kvs = [KnownValue::new(n), KnownValue::from(n), KnownValue::from(n as i32), KnownValue::from(n as usize), KnownValue::new_with_static_name(n, "static"), KnownValue::new_with_name(n, "dynamic".to_string())];
            let mut set = HashSet::new();
            for k in &kvs {
                set.insert(k.clone());
                let _ = (k.to_string(), k.name(), k.assigned_name().map(|s| s.len()), k.value());
            }
            let mut store = KnownValuesStore::new([known_values::NOTE, known_values::IS_A]);
            store.insert(kvs[5].clone());
            let _ = (store.known_value_named("dynamic").is_some(), store.known_value_named("none").is_some(), KnownValuesStore::known_value_for_name("dynamic", Some(&store)), KnownValuesStore::known_value_for_name("x", None), KnownValuesStore::name_for_known_value(kvs[0].clone(), Some(&store)), KnownValuesStore::name_for_known_value(KnownValue::new(n + 1), None), store.name(kvs[0].clone()), store.assigned_name(&kvs[0]).is_some());
            let fs = [Function::from(n), Function::from(&functions::ADD), Function::new_known(n, Some("named".to_string())), Function::new_named("f")];
            let mut fset = HashSet::new();
            let mut fstore = FunctionsStore::new([functions::ADD, functions::MUL]);
            fstore.insert(fs[2].clone());
            for f in &fs {
                fset.insert(f.clone());
                let _ = (f.to_string(), f.name(), FunctionsStore::name_for_function(f, Some(&fstore)), FunctionsStore::name_for_function(f, None), fstore.name(f), fstore.assigned_name(f).is_some());
            }
            let ps = [Parameter::from(n), Parameter::from(&parameters::LHS), Parameter::new_known(n, Some("named".to_string())), Parameter::new_named("p"), Parameter::new_with_static_name(n, "static")];
            let mut pset = HashSet::new();
            let mut pstore = ParametersStore::new([parameters::LHS, parameters::RHS]);
            pstore.insert(ps[2].clone());
            for p in &ps {
                pset.insert(p.clone());
                let _ = (p.to_string(), p.name(), ParametersStore::name_for_parameter(p, Some(&pstore)), ParametersStore::name_for_parameter(p, None), pstore.name(p), pstore.assigned_name(p).is_some());
            }
            // a caller-supplied context whose stores hold UNNAMED entries for values the envelope contains
            {
                let mut kstore = KnownValuesStore::new([known_values::NOTE]);
                kstore.insert(KnownValue::new(n));
                kstore.insert(KnownValue::from(n + 1));
                let mut fstore2 = FunctionsStore::new([functions::ADD]);
                fstore2.insert(Function::new_known(n, None));
                let mut pstore2 = ParametersStore::new([parameters::LHS]);
                pstore2.insert(Parameter::new_known(n, None));
                let ctx2 = FormatContext::new(false, None, Some(&kstore), Some(&fstore2), Some(&pstore2));
                let probe = e.add_assertion(KnownValue::new(n), KnownValue::new(n + 1)).add_assertion(dcbor::CBOR::to_tagged_value(40000u64, n), Function::new_known(n, None)).add_assertion(Parameter::new_known(n, None), "v");
                let _ = (probe.format_opt(Some(&ctx2)).len(), probe.tree_format_opt(false, Some(&ctx2)).len(), probe.hex_opt(true, Some(&ctx2)).len(), probe.format_opt(Some(&ctx2.clone().set_flat(true))).len(), kstore.assigned_name(&KnownValue::new(n)), kstore.name(KnownValue::new(n)), fstore2.name(&Function::new_known(n, None)), pstore2.name(&Parameter::new_known(n, None)));
            }
            bc_envelope::with_format_context!(|c: &FormatContext| {
                use dcbor::TagsStoreTrait;
                let t = dcbor::Tag::with_value(n);
                (c.name_for_value(n), c.tag_for_value(n).is_some(), c.tag_for_name("envelope").is_some(), c.assigned_name_for_tag(&t), c.name_for_tag(&t), c.known_values().name(KnownValue::new(n)), e.format_opt(Some(&c.clone().set_flat(true))).len())
            });
            (set.len(), fset.len(), pset.len())
        },
        "parse/attachments_container" => |e, a| { Attachments::try_from_envelope(e).map(|x| x.add_to_envelope(Envelope::new("h"))).is_ok() },
        // ---- transforms
        "transform/add_assertion" => |e, a| { let q = p(a); let o = a.other.clone(); (e.add_assertion(q.clone(), o.clone()), e.add_assertion_salted(q.clone(), o.clone(), true), e.add_optional_assertion(q.clone(), Some(o.clone())), e.add_optional_assertion(q.clone(), None::<Envelope>), e.add_assertion_if(true, q.clone(), o), e.add_nonempty_string_assertion(q, "s")) },
        "transform/add_assertion_envelope" => |e, a| { let o = a.other.clone(); (e.add_assertion_envelope(o.clone()).is_ok(), e.add_assertion_envelope(e.clone()).is_ok(), e.add_assertion_envelope_salted(o.clone(), true).is_ok(), e.add_optional_assertion_envelope(Some(o.clone())).is_ok(), e.add_optional_assertion_envelope_salted(Some(o.clone()), true).is_ok(), e.add_assertion_envelopes(&[o.clone(), e.clone()]).is_ok(), e.add_assertion_envelope_if(true, o).is_ok()) },
        "transform/remove_replace" => |e, a| { let o = a.other.clone(); let first = e.assertions().first().cloned().unwrap_or(o.clone()); (e.remove_assertion(first.clone()), e.remove_assertion(o.clone()), e.replace_assertion(first.clone(), o.clone()).is_ok(), e.replace_assertion(first.clone(), first).is_ok(), e.replace_subject(o.clone()), e.replace_subject(e.clone()), o.replace_subject(e.clone())) },
        "transform/wrap_unwrap" => |e, a| { (e.wrap_envelope(), e.unwrap_envelope().is_ok(), e.wrap_envelope().unwrap_envelope().is_ok()) },
        "types/types" => |e, a| { (e.types(), e.get_type().is_ok(), e.add_type("T"), e.add_type(known_values::IS_A)) },
        "types/has_type" => |e, a| { (e.has_type(&known_values::SEED_TYPE), e.check_type(&known_values::SEED_TYPE).is_ok(), e.has_type_envelope("T"), e.check_type_envelope(e.clone()).is_ok()) },
        "salt/add_salt" => |e, a| { let n = a.rng.below(40); (e.add_salt(), e.add_salt_with_len(n).is_ok(), e.add_salt_in_range(n..=n + 3).is_ok(), e.add_salt_instance(Salt::from_data(vec![1u8; 9]))) },
        "attachment/add" => |e, a| { let o = a.other.clone(); (e.add_attachment(o.clone(), "v", Some("c")), e.add_attachment(e.clone(), "", None), Envelope::new_attachment(e.clone(), "v", None)) },
        "attachment/query" => |e, a| { (e.attachments().is_ok(), e.attachments_with_vendor_and_conforms_to(Some("v"), Some("c")).is_ok(), e.attachment_with_vendor_and_conforms_to(Some("v"), None).is_ok(), e.attachment_with_vendor_and_conforms_to(None, None).is_ok()) },
        "attachment/parts" => |e, a| { (e.attachment_payload().is_ok(), e.attachment_vendor().is_ok(), e.attachment_conforms_to().is_ok(), e.validate_attachment().is_ok()) },
        // ---- obscuring
        "obscure/elide" => |e, a| { (e.elide(), e.elide().elide(), e.elide().unelide(e.clone()).is_ok(), e.unelide(a.other.clone()).is_ok(), e.unelide(e.clone()).is_ok()) },
        "obscure/elide_set" => |e, a| { let t = tset(a); (e.elide_removing_set(&t), e.elide_revealing_set(&t), e.elide_set(&t, true)) },
        "obscure/elide_array_target" => |e, a| { let d = tgt(a); let d2 = tgt(a); let arr: Vec<&dyn DigestProvider> = vec![&d, &d2]; (e.elide_removing_array(&arr), e.elide_revealing_array(&arr), e.elide_array(&arr, false), e.elide_removing_target(&d), e.elide_revealing_target(&d), e.elide_target(&d, true), e.elide_removing_target(e), e.elide_revealing_target(e)) },
        "obscure/elide_with_action_elide" => |e, a| { let t = tset(a); (e.elide_removing_set_with_action(&t, &ObscureAction::Elide), e.elide_revealing_set_with_action(&t, &ObscureAction::Elide)) },
        "obscure/elide_with_action_encrypt" => |e, a| { let t = tset(a); let act = ObscureAction::Encrypt(a.key.clone()); let d = tgt(a); let arr: Vec<&dyn DigestProvider> = vec![&d]; (e.elide_removing_set_with_action(&t, &act), e.elide_revealing_set_with_action(&t, &act), e.elide_removing_array_with_action(&arr, &act), e.elide_revealing_array_with_action(&arr, &act), e.elide_removing_target_with_action(&d, &act), e.elide_revealing_target_with_action(&d, &act), e.elide_target_with_action(&d, false, &act)) },
        "obscure/elide_with_action_compress" => |e, a| { let t = tset(a); let act = ObscureAction::Compress; let d = tgt(a); let arr: Vec<&dyn DigestProvider> = vec![&d]; (e.elide_removing_set_with_action(&t, &act), e.elide_revealing_set_with_action(&t, &act), e.elide_removing_array_with_action(&arr, &act), e.elide_revealing_target_with_action(&d, &act), e.elide_set_with_action(&t, true, &act), e.elide_array_with_action(&arr, true, &act)) },
        "obscure/compress" => |e, a| { (e.compress().is_ok(), e.uncompress().is_ok(), e.compress_subject().is_ok(), e.uncompress_subject().is_ok(), e.compress().and_then(|c| c.uncompress()).is_ok(), e.compress_subject().and_then(|c| c.uncompress_subject()).is_ok()) },
        "obscure/encrypt" => |e, a| { let k = a.key.clone(); (e.encrypt_subject(&k).is_ok(), e.decrypt_subject(&k).is_ok(), e.encrypt(&k), e.decrypt(&k).is_ok(), e.encrypt_subject(&k).and_then(|x| x.decrypt_subject(&k)).is_ok(), e.encrypt(&k).decrypt(&SymmetricKey::new()).is_ok()) },
        // ---- cryptographic verification
        "verify/has_signature_from" => |e, a| { for k in a.signers.iter() { let _ = (e.has_signature_from(&k.pk).is_ok(), e.verify_signature_from(&k.pk).is_ok(), e.has_signature_from_returning_metadata(&k.pk).is_ok(), e.verify_signature_from_returning_metadata(&k.pk).is_ok()); } },
        "verify/threshold" => |e, a| { let ks: Vec<&dyn Verifier> = a.signers.iter().take(3).map(|k| &k.pk as &dyn Verifier).collect(); let t = a.rng.below(5); (e.has_signatures_from(&ks).is_ok(), e.has_signatures_from_threshold(&ks, Some(t)).is_ok(), e.verify_signatures_from(&ks).is_ok(), e.verify_signatures_from_threshold(&ks, Some(t)).is_ok(), e.has_signatures_from(&[]).is_ok()) },
        "verify/verify" => |e, a| { let k = &a.signers[a.rng.below(a.signers.len())]; (e.verify(&k.pk).is_ok(), e.verify_returning_metadata(&k.pk).is_ok()) },
        "verify/direct" => |e, a| { let k = &a.signers[0]; let sig = k.sign(b"x"); (e.is_verified_signature(&sig, &k.pk), e.verify_signature(&sig, &k.pk).is_ok(), e.make_signed_assertion(&sig, Some("note")), e.make_signed_assertion(&sig, None)) },
        "sign/add_signature" => |e, a| { let k = &a.signers[a.rng.below(a.signers.len())]; let md = SignatureMetadata::new().with_assertion("k", 1); (e.add_signature_opt(&k.sk, k.options(), None), e.add_signature_opt(&k.sk, k.options(), Some(md)), e.sign_opt(&k.sk, k.options())) },
        "recipient/recipients" => |e, a| { e.recipients().is_ok() },
        "recipient/decrypt" => |e, a| { let k = &a.recipients[a.rng.below(a.recipients.len())]; (e.decrypt_subject_to_recipient(&k.sk).is_ok(), e.decrypt_to_recipient(&k.sk).is_ok()) },
        "recipient/add" => |e, a| { let k = &a.recipients[a.rng.below(a.recipients.len())]; let ck = a.key.clone(); (e.add_recipient(&k.pk, &ck), e.encrypt_subject_to_recipient(&k.pk).is_ok(), e.encrypt_to_recipient(&k.pk)) },
        "seal/unseal" => |e, a| { let s = &a.signers[0]; let k = &a.recipients[a.rng.below(a.recipients.len())]; (e.unseal(&s.pk, &k.sk).is_ok(), e.seal_opt(&s.sk, &k.pk, s.options()).unseal(&s.pk, &k.sk).is_ok()) },
        "sskr/join" => |e, a| { let o = a.other.clone(); (Envelope::sskr_join(&[e]).is_ok(), Envelope::sskr_join(&[e, e]).is_ok(), Envelope::sskr_join(&[&o, e]).is_ok(), Envelope::sskr_join(&[]).is_ok()) },
        "sskr/split" => |e, a| { let spec = SSKRSpec::new(1, vec![SSKRGroupSpec::new(2, 3).unwrap()]).unwrap(); let k = a.key.clone(); (e.sskr_split(&spec, &k).is_ok(), e.sskr_split_flattened(&spec, &k).is_ok()) },
        "proof/proof_contains" => |e, a| { let t = tset(a); let d = tgt(a); (e.proof_contains_set(&t).is_some(), e.proof_contains_target(&d).is_some(), e.proof_contains_target(e).is_some()) },
        "proof/confirm_contains" => |e, a| { let t = tset(a); let d = tgt(a); let o = a.other.clone(); (e.confirm_contains_set(&t, &o), e.confirm_contains_target(&d, &o), e.confirm_contains_set(&t, e), e.elide().confirm_contains_target(&d, e)) },
    ]
}

/// envelopes with decorated known-predicate assertions (assertions carrying assertions)
fn decorate(e: &Envelope, a: &mut Aux) -> Envelope {
    let k = &a.signers[a.rng.below(a.signers.len())];
    let r = &a.recipients[a.rng.below(a.recipients.len())];
    let sig = k.sign(e.subject().digest().data());
    let sealed = SealedMessage::new(dcbor::CBOREncodable::to_cbor_data(&a.key), &r.pk);
    match a.rng.below(9) {
        0 => e.add_assertion_salted(known_values::SIGNED, sig, true),
        1 => e.add_assertion_salted(known_values::HAS_RECIPIENT, sealed, true),
        2 => {
            let spec = SSKRSpec::new(1, vec![SSKRGroupSpec::new(1, 1).unwrap()]).unwrap();
            let w = Envelope::new("s").wrap_envelope().encrypt_subject(&a.key).unwrap();
            let share = w.sskr_split_flattened(&spec, &a.key).unwrap().remove(0);
            let sa = share.assertions_with_predicate(known_values::SSKR_SHARE).remove(0);
            e.add_assertion_envelope(sa.add_salt()).unwrap()
        }
        3 => e.add_assertion_salted(known_values::IS_A, "Type", true),
        4 => e.add_assertion_envelope(Envelope::new_attachment("payload", "vendor", Some("c")).add_salt()).unwrap(),
        5 if a.rng.chance(1, 2) => {
            // well-typed but degenerate component values under the known predicates
            let n = a.rng.below(6);
            let short_share = SSKRShare::from_data(a.rng.bytes(n));
            e.add_assertion(known_values::SSKR_SHARE, short_share).add_assertion(known_values::SALT, Salt::from_data(vec![])).add_assertion(known_values::SIGNED, Envelope::new("x").wrap_envelope())
        }
        5 => e.add_assertion_salted(known_values::SALT, "not a salt", true).add_assertion(known_values::SIGNED, "not a signature").add_assertion(known_values::HAS_RECIPIENT, 5).add_assertion(known_values::SSKR_SHARE, "x"),
        6 => e.add_assertion(known_values::BODY, "b").add_assertion(known_values::RESULT, "r").add_assertion(known_values::ERROR, "e").add_assertion(known_values::CONTENT, 1).add_assertion_salted(known_values::NOTE, 3, true).add_assertion_salted(known_values::DATE, "d", true),
        7 => e.add_assertion_salted(known_values::ATTACHMENT, Envelope::new("p").wrap_envelope().add_assertion_salted(known_values::VENDOR, "v", true), true),
        8 if a.rng.chance(1, 3) => {
            // genuine, sufficient SSKR shares - but of a secret that is not a 32-byte content key
            let n = *a.rng.pick(&[16usize, 18, 24, 30]);
            let secret = bc_components::SSKRSecret::new(a.rng.bytes(n)).unwrap();
            let spec = SSKRSpec::new(1, vec![SSKRGroupSpec::new(1, 1).unwrap()]).unwrap();
            let shares = bc_components::sskr_generate(&spec, &secret).unwrap();
            let w = e.wrap_envelope().encrypt_subject(&a.key).unwrap();
            w.add_assertion(known_values::SSKR_SHARE, shares[0][0].clone())
        }
        8 if a.rng.chance(1, 2) => {
            // a bare signature leaf that carries assertions of its own (a note, an unwrapped countersignature)
            let so = Envelope::new(sig.clone());
            let counter = k.sign(so.digest().data());
            e.add_assertion(known_values::SIGNED, so.add_assertion(known_values::SIGNED, counter).add_assertion(known_values::NOTE, "countersigned"))
        }
        _ => e.add_assertion(known_values::SIGNED, Envelope::new(sig).add_assertion(known_values::NOTE, "m").wrap_envelope().add_assertion_salted(known_values::SIGNED, k.sign(b"zz"), true)),
    }
}

/// a genuine request / response / event / expression envelope in which one assertion has been decorated
/// (salted, annotated) or had a part obscured - same predicate, same object
fn expression_shaped(a: &mut Aux) -> Envelope {
    let id = bc_components::ARID::from_data_ref(a.rng.bytes(32)).unwrap();
    let x: Envelope = match a.rng.below(7) {
        0 => Response::new_success(id).with_result("ok").into(),
        1 => Response::new_failure(id).with_error("went wrong").into(),
        2 => Response::new_early_failure().with_error("early").into(),
        3 => Request::new(functions::ADD, id).with_parameter(parameters::LHS, 2).with_parameter(parameters::RHS, 3).with_note("n").with_date(dcbor::Date::from_timestamp(1.0e9)).into(),
        4 => Event::<String>::new("content".to_string(), id).with_note("n").with_date(dcbor::Date::from_timestamp(1.0e9)).into(),
        5 => Event::<Envelope>::new(Envelope::new("c").add_assertion("k", 1), id).into(),
        _ => Expression::new(functions::ADD).with_parameter(parameters::LHS, 2).with_parameter("named", Envelope::new("v").add_assertion("k", 1)).into(),
    };
    let asr = x.assertions();
    if asr.is_empty() {
        return x;
    }
    let t = asr[a.rng.below(asr.len())].clone();
    let stripped = x.remove_assertion(t.clone());
    let decorated = match a.rng.below(6) {
        0 => t.add_salt(),
        1 => t.add_assertion(known_values::NOTE, "decorated"),
        2 => t.add_salt().add_salt(),
        3 => t.elide_removing_target(&t.as_object().unwrap()),
        4 => t.elide_removing_target(&t.as_predicate().unwrap()),
        _ => t.add_salt().elide_removing_target(&t),
    };
    let y = stripped.add_assertion_envelope(decorated).unwrap_or(x.clone());
    // sometimes BOTH forms of the part (plain and decorated with another value)
    if a.rng.chance(1, 4) {
        y.add_assertion_envelope(Envelope::new_assertion(t.as_predicate().unwrap(), "second").add_salt()).unwrap_or(y.clone())
    } else {
        y
    }
}

pub fn run(ctx: &mut Ctx) {
    bc_envelope::register_tags();
    let ops = catalogue();
    let signers = key_pool(1, false);
    let recipients = recipient_pool(1);
    let total = ctx.n(6_000, 100_000);
    if ctx.shard == 0 {
        ctx.count_n("catalogue_size", ops.len() as u64);
        ctx.notes.push("excluded by documented precondition: Response::with_result on a failure / with_error on a success, expect_id, add_assertions(non-assertions), ur() before register_tags(); stack exhaustion beyond nesting depth 32".into());
    }
    for case in ctx.cases(total) {
        ctx.begin_case(case);
        let mut rng = ctx.rng(case);
        let mut cfg = cfg_for(ctx, case);
        cfg.node_subject = case % 4 == 0;
        cfg.big = false;
        let (_m, base) = universe(&mut rng, cfg, case);
        let key = fresh_key(&mut rng);
        let (_m2, other) = universe(&mut rng, GenCfg::small(), case ^ 0x1616);
        let mut aux = Aux { rng: rng.fork(), key: key.clone(), signers: &signers, recipients: &recipients, preds: vec![], targets: vec![], other };
        // the envelope zoo for this case
        let mut zoo: Vec<(&'static str, Envelope)> = vec![("plain", base.clone())];
        zoo.push(("decorated", decorate(&base, &mut aux)));
        let ob = gen::obscure_random(&base, &mut rng, 3, &key);
        zoo.push(("obscured", ob.clone()));
        // obscure already-obscured parts again with every action (incl. Compress on elided/encrypted)
        {
            let t = tree_of(&ob);
            let placeholders: Vec<[u8; 32]> = t.flatten().iter().filter(|(_, n)| n.kind.is_obscured()).map(|(_, n)| n.digest).collect();
            if !placeholders.is_empty() {
                let d = *rng.pick(&placeholders);
                for act in ACTS {
                    let set = gen::digest_set(&[d]);
                    let lbl: &'static str = match act {
                        Act::Elide => "reobscure-elide",
                        Act::Encrypt => "reobscure-encrypt",
                        Act::Compress => "reobscure-compress",
                    };
                    ctx.eval();
                    ctx.count("reobscure_ops");
                    match trap::guard(|| ob.elide_removing_set_with_action(&set, &action(act, &key))) {
                        Ok(r) => zoo.push((lbl, r)),
                        Err(p) => ctx.violation(&format!("panic/obscure/{}/{}", lbl, p.signature()), &format!("{:?}", p), J::obj(vec![("envelope_hex", jhex(&ob)), ("target", J::s(hex::encode(d))), ("action", J::s(format!("{:?}", act)))])),
                    }
                }
            }
        }
        zoo.push(("decorated-obscured", gen::obscure_random(&zoo[1].1.clone(), &mut rng, 2, &key)));
        // deep nesting (formatters indent, walkers recurse): 21..300 levels
        {
            let depth = *rng.pick(&[21usize, 22, 40, 64, 65, 129, 257, 300]);
            let mut d = Envelope::new("core");
            for i in 0..depth {
                d = match i % 3 {
                    0 => d.wrap_envelope(),
                    1 => Envelope::new("level").add_assertion("inner", d),
                    _ => d.add_assertion("n", i as u64),
                };
            }
            zoo.push(("deep-nesting", d));
        }
        zoo.push(("expression-shaped", expression_shaped(&mut aux)));
        zoo.push(("elided-whole", base.elide()));
        zoo.push(("encrypted-whole", base.wrap_envelope().encrypt_subject(&key).unwrap()));
        if let Ok(c) = base.compress() {
            zoo.push(("compressed-whole", c));
        }
        // adversarially decoded: structural mutants of the encoding that the decoder accepts
        if let Ok(item) = spec::parse_item(&env_bytes(&zoo[1].1)) {
            for _ in 0..6 {
                let (m, _) = c06::structural_for_c16(&item, &mut rng);
                if let Ok(Ok(d)) = trap::guard(|| Envelope::try_from_cbor_data(encode(&m))) {
                    zoo.push(("decoded-mutant", d));
                    break;
                }
            }
        }
        // one inner element
        let ps = pos::positions(&zoo[1].1);
        if ps.len() > 1 {
            zoo.push(("inner-element", ps[rng.range(1, ps.len() - 1)].1.clone()));
        }
        for (label, e) in zoo {
            let t = tree_of(&e);
            ctx.count(&format!("zoo_{}", label));
            ctx.nontrivial(t.shape_hash() ^ crate::rng::fnv(label));
            // argument choices: predicates present (as envelopes and known values) and absent; targets
            let mut preds: Vec<Envelope> = vec![Envelope::new("absent-predicate"), Envelope::new(known_values::NOTE), Envelope::new(known_values::SIGNED), Envelope::new(known_values::IS_A), Envelope::new(known_values::HAS_RECIPIENT), Envelope::new(known_values::SSKR_SHARE), Envelope::new(known_values::ATTACHMENT), Envelope::new(known_values::VENDOR), Envelope::new(known_values::SALT), Envelope::new(known_values::BODY), Envelope::new(known_values::RESULT)];
            for a in e.assertions() {
                if let Some(pp) = a.subject().as_predicate() {
                    preds.push(pp);
                }
            }
            let mut targets: Vec<Digest> = t.all_digests().iter().map(|d| Digest::from_data(*d)).collect();
            targets.push(Digest::from_image(b"absent"));
            aux.preds = preds;
            aux.targets = targets;
            for (name, f) in &ops {
                ctx.eval();
                ctx.count(&format!("family_{}", name.split('/').next().unwrap()));
                if let Err(pn) = trap::guard(|| f(&e, &mut aux)) {
                    // a panic raised inside a dependency is keyed on the dependency's source file (one
                    // root cause, many entry points); a panic in this crate is keyed on the operation too
                    let sig = if pn.file.contains("/registry/src/") { format!("panic/dependency/{}", pn.signature()) } else { format!("panic/{}/{}", name, pn.signature()) };
                    ctx.violation(
                        &sig,
                        &format!("{} on a {} envelope panicked: {:?}", name, label, pn),
                        J::obj(vec![("envelope_hex", jhex(&e)), ("operation", J::s(*name)), ("envelope_kind", J::s(label))]),
                    );
                }
            }
        }
        ctx.sample(|| J::obj(vec![("case", J::i(case)), ("base", J::s(brief(&tree_of(&base)))), ("operations", J::i(ops.len() as u64))]));
    }
}
