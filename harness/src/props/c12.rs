//! C12 — inclusion proofs are complete, sound and minimally revealing.

use std::collections::HashSet;

use bc_components::Digest;
use bc_envelope::prelude::*;

use super::c03::expected;
use super::common::*;
use crate::ctx::Ctx;
use crate::gen;
use crate::json::J;
use crate::pos::{path_str, tree_of, Path, T};
use crate::rng::Rng;
use crate::spec::{self, Kind, D32};
use crate::trap;

fn dset(ds: &HashSet<D32>) -> HashSet<Digest> {
    ds.iter().map(|d| Digest::from_data(*d)).collect()
}

/// reference verifier: root digest equal and every target occurs somewhere in the proof
fn ref_confirm(root: &D32, targets: &HashSet<D32>, proof: &T) -> bool {
    if proof.digest != *root {
        return false;
    }
    let all: HashSet<D32> = proof.all_digests().into_iter().collect();
    targets.iter().all(|t| all.contains(t))
}

fn occurrences(t: &T, targets: &HashSet<D32>) -> Vec<(Path, D32)> {
    t.flatten().into_iter().filter(|(_, n)| targets.contains(&n.digest)).map(|(p, n)| (p, n.digest)).collect()
}

fn is_prefix(a: &[crate::pos::Edge], b: &[crate::pos::Edge]) -> bool {
    a.len() < b.len() && b[..a.len()] == a[..]
}

/// Some target occurs only beneath an occurrence of another target (D8 shape).
fn nested_hidden(occ: &[(Path, D32)], targets: &HashSet<D32>) -> bool {
    for t in targets {
        let mine: Vec<&(Path, D32)> = occ.iter().filter(|(_, d)| d == t).collect();
        if mine.is_empty() {
            continue;
        }
        let all_beneath = mine.iter().all(|(p, _)| occ.iter().any(|(q, d2)| d2 != t && is_prefix(q, p)));
        if all_beneath {
            return true;
        }
    }
    false
}

fn pick_target_sets(t: &T, rng: &mut Rng) -> Vec<HashSet<D32>> {
    let mut uniq = t.all_digests();
    uniq.sort();
    uniq.dedup();
    let mut out: Vec<HashSet<D32>> = Vec::new();
    if uniq.len() <= 5 {
        for mask in 0u32..(1 << uniq.len()) {
            out.push((0..uniq.len()).filter(|i| mask >> i & 1 == 1).map(|i| uniq[i]).collect());
        }
    } else {
        out.push(HashSet::new());
        out.push([t.digest].into_iter().collect());
        // the deepest element, alone and together with a shallow one
        if let Some((_, n)) = t.flatten().iter().max_by_key(|(p, _)| p.len()) {
            out.push([n.digest].into_iter().collect());
            out.push([n.digest, t.children.last().map(|c| c.digest).unwrap_or(n.digest)].into_iter().collect());
        }
        for _ in 0..5 {
            let k = rng.range(1, 4);
            out.push((0..k).map(|_| *rng.pick(&uniq)).collect());
        }
        // nested: an element and something beneath it
        let flat = t.flatten();
        let inner: Vec<&(Path, &T)> = flat.iter().filter(|(p, _)| p.len() >= 2).collect();
        if !inner.is_empty() {
            let (p, n) = rng.pick(&inner);
            let anc = t.at(&p[..rng.below(p.len())]).unwrap();
            out.push([n.digest, anc.digest].into_iter().collect());
        }
    }
    // with an absent digest
    let mut absent = [0u8; 32];
    absent.copy_from_slice(&rng.bytes(32));
    let mut s: HashSet<D32> = HashSet::new();
    s.insert(absent);
    if rng.chance(1, 2) {
        s.insert(*rng.pick(&uniq));
    }
    out.push(s);
    out
}

/// single-element mutations of a genuine proof
fn mutate_proof(p: &Envelope, e: &Envelope, rng: &mut Rng) -> Vec<(String, Envelope)> {
    let mut out = Vec::new();
    let bytes = env_bytes(p);
    let pt = tree_of(p);
    // (a) flip a bit inside one elided digest
    let elided: Vec<D32> = pt.flatten().iter().filter(|(_, n)| n.kind == Kind::Elided).map(|(_, n)| n.digest).collect();
    if !elided.is_empty() {
        let d = rng.pick(&elided);
        if let Some(posn) = bytes.windows(32).position(|w| w == d) {
            let mut b = bytes.clone();
            b[posn + rng.below(32)] ^= 1 << rng.below(8);
            if let Ok(m) = Envelope::try_from_cbor_data(b) {
                out.push(("digest-flipped".into(), m));
            }
        }
    }
    // (b) assertion dropped / (c) added
    if let Some(a) = p.assertions().first() {
        out.push(("assertion-dropped".into(), p.remove_assertion(a.clone())));
    }
    out.push(("assertion-added".into(), p.add_assertion("extra", rng.next_u64())));
    // (d) a target placeholder swapped for another digest is a digest flip of that placeholder (a)
    // (e) other content un-elided: reveal everything
    out.push(("fully-revealed".into(), e.clone()));
    out.push(("wrapped".into(), p.wrap_envelope()));
    out.push(("elided-root".into(), p.elide()));
    out
}

pub fn run(ctx: &mut Ctx) {
    let total = ctx.n(100_000, 3_000_000);
    for case in ctx.cases(total) {
        ctx.begin_case(case);
        let mut rng = ctx.rng(case);
        let mut cfg = cfg_for(ctx, case);
        cfg.big = false;
        cfg.node_subject = case % 5 == 3;
        let (_m, e0) = universe(&mut rng, cfg, case);
        let key = fresh_key(&mut rng);
        let e = if rng.chance(1, 4) { gen::obscure_random(&e0, &mut rng, 2, &key) } else { e0 };
        // every 150th case: a deep chain (the core sits 129..300 levels down)
        let e = if case % 150 == 11 {
            ctx.count("deep_chain_inputs");
            let adv = gen::adversarial_models();
            let deep: Vec<&(String, gen::M)> = adv.iter().filter(|(l, _)| l.starts_with("deep-chain")).collect();
            gen::build(&deep[(case / 150) as usize % deep.len()].1, gen::Route::Plain, &mut rng)
        } else {
            e
        };
        // a sixth of the cases: one occurrence of a repeated element elided, the other occurrences in full
        let e = if case % 6 == 1 && !tree_of(&e).has_obscured() {
            let t0 = tree_of(&e);
            let flat0 = t0.flatten();
            let dup: Vec<&(Path, &T)> = flat0.iter().filter(|(p, n)| !p.is_empty() && flat0.iter().filter(|(_, m)| m.digest == n.digest).count() >= 2).collect();
            if let Some((path, _)) = dup.first() {
                let mut t2 = t0.clone();
                {
                    let mut cur = &mut t2;
                    for e2 in path.iter() {
                        let idx = cur.edges().iter().position(|x| x == e2).unwrap();
                        cur = &mut cur.children[idx];
                    }
                    *cur = T { kind: Kind::Elided, digest: cur.digest, leaf: None, kv: None, children: vec![] };
                }
                match Envelope::try_from_cbor_data(gen::tree_bytes(&t2)) {
                    Ok(v) => {
                        ctx.count("inputs_with_one_occurrence_elided");
                        v
                    }
                    Err(_) => e,
                }
            } else {
                e
            }
        } else {
            e
        };
        let t = tree_of(&e);
        if t.count() > 1 {
            ctx.nontrivial(t.shape_hash());
        }
        let all: HashSet<D32> = t.all_digests().into_iter().collect();
        // two digest-equal copies of one sub-envelope, redacted DIFFERENTLY (each shows what the other hides), inside
        // one envelope; the targets are visible in different copies: every target occurs, so a proof exists and a
        // root-only verifier accepts it
        if case % 9 == 2 {
            ctx.eval();
            ctx.count("differently_redacted_copies");
            let x = Envelope::new(format!("x-{}", case)).add_assertion("alpha", case).add_assertion("beta", format!("b-{}", case)).add_assertion("gamma", e.clone());
            let asr = x.assertions();
            let (a1, a2) = (asr[0].clone(), asr[1].clone());
            let copy1 = x.elide_removing_target(&a2);
            let copy2 = x.elide_removing_target(&a1);
            let both = Envelope::new("holder").add_assertion("one", copy1).add_assertion("two", copy2);
            // targets: something inside a1 and something inside a2 (their objects)
            let ts: HashSet<D32> = [gen::root_digest(&a1.as_object().unwrap()), gen::root_digest(&a2.as_object().unwrap())].into_iter().collect();
            match trap::guard(|| both.proof_contains_set(&dset(&ts))) {
                Ok(Some(pr)) => {
                    if gen::root_digest(&pr) != gen::root_digest(&both) || !both.elide().confirm_contains_set(&dset(&ts), &pr) {
                        ctx.violation("redacted-copies/proof-rejected", "the proof over two differently redacted copies has another root or is not accepted", jhex(&both));
                    }
                }
                Ok(None) => ctx.violation("redacted-copies/no-proof-although-all-targets-occur", "every target occurs (each in another copy of the same sub-envelope) but no proof was produced", jhex(&both)),
                Err(pn) => ctx.violation(&format!("proof-panic/{}", pn.signature()), &format!("{:?}", pn), jhex(&both)),
            }
        }
        let verifier = e.elide(); // holds only the root digest
        let (_m2, other_env) = universe(&mut rng, crate::gen::GenCfg::small(), case ^ 0x5a5a);
        let mut uniq: Vec<D32> = all.iter().cloned().collect();
        uniq.sort();
        if uniq.len() <= 5 {
            ctx.count("exhaustive_subset_envelopes");
        }
        for targets in pick_target_sets(&t, &mut rng) {
            let lib_targets = dset(&targets);
            let replay = || J::obj(vec![("envelope_hex", jhex(&e)), ("targets", J::Arr(targets.iter().map(|d| J::s(hex::encode(d))).collect()))]);
            ctx.eval();
            let all_occur = targets.iter().all(|d| all.contains(d));
            let proof = match trap::guard(|| e.proof_contains_set(&lib_targets)) {
                Ok(p) => p,
                Err(p) => {
                    ctx.violation(&format!("proof-panic/{}", p.signature()), &format!("{:?}", p), replay());
                    continue;
                }
            };
            // completeness of production
            match (&proof, all_occur) {
                (None, true) => {
                    ctx.violation("no-proof-although-all-targets-occur", "proof_contains_set returned None although every target occurs", replay());
                    continue;
                }
                (Some(_), false) => {
                    ctx.violation("proof-for-absent-target", "proof produced although some target does not occur", replay());
                    continue;
                }
                (None, false) => {
                    ctx.count("absent_target_sets");
                    continue;
                }
                _ => {}
            }
            let p = proof.unwrap();
            let pt = tree_of(&p);
            ctx.count(match targets.len() {
                0 => "proofs_empty_target_set",
                1 => "proofs_single_target",
                _ => "proofs_multi_target",
            });
            if pt.digest != t.digest {
                ctx.violation("proof-root-digest", "proof has another root digest", replay());
            }
            check_spec(ctx, &p, "proof");
            let occ = occurrences(&t, &targets);
            if occ.len() > targets.len() {
                ctx.count("multi_position_targets");
            }
            let nested = nested_hidden(&occ, &targets);
            // verifier with only the root digest accepts the genuine proof
            ctx.eval();
            let accepted = verifier.confirm_contains_set(&lib_targets, &p);
            let want = ref_confirm(&t.digest, &targets, &pt);
            if accepted != want {
                ctx.violation("verifier-disagrees-with-reference", &format!("confirm_contains_set={} reference={}", accepted, want), replay());
            }
            if !accepted {
                if nested {
                    ctx.count("nested_target_cases");
                    ctx.violation("nested-target-hidden-by-outer-target/confirm=false", "genuine proof for nested targets (one target beneath another) is not confirmed: the outer target is elided and hides the inner one", replay());
                } else {
                    ctx.violation("genuine-proof-rejected", "genuine proof not accepted by a verifier holding the root digest", replay());
                }
            }
            if targets.len() == 1 {
                let d = Digest::from_data(*targets.iter().next().unwrap());
                let p1 = e.proof_contains_target(&d);
                if p1.as_ref().map(|x| tree_of(x)) != Some(pt.clone()) || !verifier.confirm_contains_target(&d, &p) {
                    ctx.violation("single-target-api-differs", "proof_contains_target / confirm_contains_target disagree with the set forms", replay());
                }
            }

            // minimal disclosure, by position
            ctx.eval();
            ctx.count("disclosure_checked");
            let mut bad: Option<String> = None;
            for (path, n) in pt.flatten() {
                let orig = t.at(&path);
                if orig.is_none() {
                    bad = Some(format!("{}: position not in the original", path_str(&path)));
                    break;
                }
                let o = orig.unwrap();
                if n.kind == Kind::Elided {
                    continue;
                }
                if n.kind.is_obscured() {
                    // a compressed / encrypted placeholder carries content; off the paths and at the
                    // targets a proof holds nothing but elided digests
                    bad = Some(format!("{}: {:?} placeholder left in the proof instead of an elided digest", path_str(&path), n.kind));
                    break;
                }
                let _ = o;
                if targets.contains(&n.digest) {
                    bad = Some(format!("{}: a target is present un-elided ({:?})", path_str(&path), n.kind));
                    break;
                }
                let on_path = occ.iter().any(|(q, _)| is_prefix(&path, q));
                if !on_path {
                    bad = Some(format!("{}: {:?} disclosed off every root->target path", path_str(&path), n.kind));
                    break;
                }
                if o.kind != n.kind || o.digest != n.digest {
                    bad = Some(format!("{}: differs from the original", path_str(&path)));
                    break;
                }
            }
            if let Some(b) = bad {
                let class = b.splitn(2, ": ").nth(1).unwrap_or("?").split_whitespace().take(3).collect::<Vec<_>>().join("-");
                ctx.violation(&format!("over-disclosure/{}", class), &b, replay());
            }
            // exact expected proof from the digest rule (catches over-elision too)
            let mut reveal: HashSet<D32> = HashSet::new();
            for (q, _) in &occ {
                for i in 0..=q.len() {
                    reveal.insert(t.at(&q[..i]).unwrap().digest);
                }
            }
            let step1 = expected(&t, &reveal, true, Kind::Elided, &mut vec![], &mut vec![]);
            let exp = expected(&step1, &targets, false, Kind::Elided, &mut vec![], &mut vec![]);
            if !nested {
                ctx.count("expected_proof_compared");
                if !same_modulo_placeholders(&exp, &pt) {
                    ctx.violation("proof-differs-from-expected", "proof is not the expected minimal proof", replay());
                }
            }

            // soundness on mutated / foreign proofs and other target sets
            if accepted && !targets.is_empty() {
                for (label, m) in mutate_proof(&p, &e, &mut rng) {
                    ctx.eval();
                    ctx.count("soundness_mutants");
                    let mt = tree_of(&m);
                    let want = ref_confirm(&t.digest, &targets, &mt);
                    let got = verifier.confirm_contains_set(&lib_targets, &m);
                    if got != want {
                        ctx.violation(&format!("soundness/{}", label), &format!("mutated proof ({}): verifier={} reference={}", label, got, want), J::obj(vec![("envelope_hex", jhex(&e)), ("proof_hex", jhex(&m)), ("targets", J::Arr(targets.iter().map(|d| J::s(hex::encode(d))).collect()))]));
                    }
                    if want {
                        ctx.count("soundness_mutants_still_valid");
                    }
                }
                // proof of another envelope
                ctx.eval();
                ctx.count("foreign_proofs");
                let od: HashSet<D32> = [gen::root_digest(&other_env)].into_iter().collect();
                if let Some(fp) = other_env.proof_contains_set(&dset(&od)) {
                    let want = ref_confirm(&t.digest, &targets, &tree_of(&fp));
                    if verifier.confirm_contains_set(&lib_targets, &fp) != want {
                        ctx.violation("soundness/foreign-proof", "a proof made for another envelope was judged differently from the reference", replay());
                    }
                }
                // forged proofs with ANOTHER root that mention the verifier's root digest next to the targets, and
                // the genuine proof wrapped once; and every proof offered to verifiers that hold more than the
                // root digest (the whole envelope, a partly revealed copy): the verdict depends on the proof only
                {
                    let root_ph = gen::elided_with_digest(&t.digest);
                    let t0 = *targets.iter().next().unwrap();
                    let mut forged: Vec<(&str, Envelope)> = vec![
                        ("root-as-predicate", Envelope::new_assertion(root_ph.clone(), gen::elided_with_digest(&t0))),
                        ("genuine-wrapped", p.wrap_envelope()),
                    ];
                    let mut note = Envelope::new("note").add_assertion("about", root_ph.clone());
                    for d in targets.iter() {
                        note = note.add_assertion("mentions", gen::elided_with_digest(d));
                    }
                    forged.push(("note-mentioning-root-and-targets", note));
                    forged.push(("garbage", Envelope::new(format!("garbage-{}", case))));
                    if let Some(fp) = other_env.proof_contains_set(&dset(&[gen::root_digest(&other_env)].into_iter().collect())) {
                        forged.push(("foreign", fp));
                    }
                    // an off-path elided assertion of the genuine proof replaced by a COMPRESSED element that declares
                    // the same digest but carries unrelated content: asked about something found only inside that
                    // payload, the answer is no (the reference does not look inside placeholders)
                    let smuggled = Envelope::new("smuggled").add_assertion("knows", format!("Mallory-{}", case));
                    let smuggled_digest = gen::root_digest(&smuggled);
                    if let Some(a) = p.assertions().into_iter().find(|a| a.is_elided() && !targets.contains(&gen::root_digest(a))) {
                        let ph = Envelope::try_from(bc_components::Compressed::from_uncompressed_data(smuggled.tagged_cbor().to_cbor_data(), Some(bc_components::DigestProvider::digest(&a).into_owned())));
                        if let Ok(ph) = ph {
                            if let Ok(fp) = p.replace_assertion(a.clone(), ph) {
                                ctx.eval();
                                ctx.count("proofs_with_smuggling_compressed_placeholder");
                                let mut t2: HashSet<D32> = HashSet::new();
                                t2.insert(smuggled_digest);
                                for (hl, h) in [("root-only", verifier.clone()), ("whole-envelope", e.clone())] {
                                    match trap::guard(|| (h.confirm_contains_set(&dset(&t2), &fp), h.confirm_contains_set(&lib_targets, &fp))) {
                                        Ok((inside, genuine_targets)) => {
                                            if inside {
                                                ctx.violation(&format!("soundness/smuggled-in-compressed-placeholder/{}", hl), "a digest that occurs only inside the payload of a compressed placeholder in the proof was confirmed", jhex(&fp));
                                            }
                                            let want = ref_confirm(&t.digest, &targets, &tree_of(&fp));
                                            if genuine_targets != want {
                                                ctx.violation(&format!("soundness/compressed-placeholder/{}", hl), &format!("proof with a compressed placeholder off the paths: verifier={} reference={}", genuine_targets, want), jhex(&fp));
                                            }
                                        }
                                        Err(pn) => ctx.violation(&format!("confirm-panic/{}", pn.signature()), &format!("{:?}", pn), jhex(&fp)),
                                    }
                                }
                            }
                        }
                    }
                    forged.push(("genuine", p.clone()));
                    let partly = e.elide_revealing_set(&dset(&reveal));
                    let holders: Vec<(&str, Envelope)> = vec![("root-only", verifier.clone()), ("whole-envelope", e.clone()), ("partly-revealed", partly), ("the-proof-itself", p.clone())];
                    for (fl, fpv) in &forged {
                        let want = ref_confirm(&t.digest, &targets, &tree_of(fpv));
                        for (hl, h) in &holders {
                            ctx.eval();
                            ctx.count("forged_proofs_and_content_holding_verifiers");
                            match trap::guard(|| h.confirm_contains_set(&lib_targets, fpv)) {
                                Ok(got) => {
                                    if got != want {
                                        ctx.violation(&format!("soundness/{}/{}", fl, hl), &format!("proof ({}) offered to a verifier holding {}: verifier={} reference={}", fl, hl, got, want), J::obj(vec![("envelope_hex", jhex(&e)), ("proof_hex", jhex(fpv)), ("targets", J::Arr(targets.iter().map(|d| J::s(hex::encode(d))).collect()))]));
                                    }
                                }
                                Err(pn) => ctx.violation(&format!("confirm-panic/{}", pn.signature()), &format!("{:?}", pn), replay()),
                            }
                        }
                    }
                }
                // other target sets against the genuine proof
                ctx.eval();
                ctx.count("other_target_sets");
                let mut more = targets.clone();
                let mut absent = [0u8; 32];
                absent.copy_from_slice(&rng.bytes(32));
                more.insert(absent);
                if verifier.confirm_contains_set(&dset(&more), &p) {
                    ctx.violation("soundness/absent-target-confirmed", "proof confirmed for a target set containing a digest that does not occur in it", replay());
                }
                // a digest that is in the envelope but elided away in the proof (off-path)
                let proof_digests: HashSet<D32> = pt.all_digests().into_iter().collect();
                if let Some(hidden) = uniq.iter().find(|d| !proof_digests.contains(*d)) {
                    let mut t2 = targets.clone();
                    t2.insert(*hidden);
                    ctx.count("hidden_digest_target_sets");
                    if verifier.confirm_contains_set(&dset(&t2), &p) {
                        ctx.violation("soundness/hidden-target-confirmed", "proof confirmed for a target that does not occur in the proof", replay());
                    }
                }
            }
        }
        ctx.sample(|| J::obj(vec![("case", J::i(case)), ("envelope", J::s(brief(&t))), ("distinct_digests", J::i(uniq.len() as u64))]));
        let _ = spec::TAG_LEAF;
    }
}

fn same_modulo_placeholders(exp: &T, got: &T) -> bool {
    if exp.digest != got.digest {
        return false;
    }
    if exp.kind.is_obscured() || got.kind.is_obscured() {
        return exp.kind == Kind::Elided && got.kind == Kind::Elided;
    }
    exp.kind == got.kind && exp.children.len() == got.children.len() && exp.children.iter().zip(got.children.iter()).all(|(a, b)| same_modulo_placeholders(a, b))
}
