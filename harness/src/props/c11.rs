//! C11 — SSKR shares reconstruct the envelope exactly when a quorum is present.

use bc_components::{SSKRGroupSpec, SSKRShare, SSKRSpec, SymmetricKey};
use bc_envelope::prelude::*;

use super::common::*;
use crate::ctx::Ctx;
use crate::gen::GenCfg;
use crate::json::J;
use crate::pos::d32;
use crate::trap;

fn group_options() -> Vec<(usize, usize)> {
    let mut v = Vec::new();
    for n in 1..=4usize {
        for t in 1..=n {
            v.push((t, n));
        }
    }
    v
}

/// all policies with up to `max_groups` groups over `opts` member specs
fn policies(max_groups: usize, opts: &[(usize, usize)]) -> Vec<(usize, Vec<(usize, usize)>)> {
    let mut out = Vec::new();
    fn rec(cur: &mut Vec<(usize, usize)>, g: usize, opts: &[(usize, usize)], out: &mut Vec<(usize, Vec<(usize, usize)>)>) {
        if cur.len() == g {
            for gt in 1..=g {
                out.push((gt, cur.clone()));
            }
            return;
        }
        for o in opts {
            cur.push(*o);
            rec(cur, g, opts, out);
            cur.pop();
        }
    }
    for g in 1..=max_groups {
        rec(&mut vec![], g, opts, &mut out);
    }
    out
}

fn quorum(gt: usize, groups: &[(usize, usize)], chosen: &[Vec<bool>]) -> bool {
    let mut ok = 0;
    for (g, (t, _)) in groups.iter().enumerate() {
        if chosen[g].iter().filter(|b| **b).count() >= *t {
            ok += 1;
        }
    }
    ok >= gt
}

fn share_id(e: &Envelope) -> Option<u16> {
    e.assertions_with_predicate(known_values::SSKR_SHARE).first().and_then(|a| a.subject().as_object()).and_then(|o| o.extract_subject::<SSKRShare>().ok()).map(|s| s.identifier())
}

pub fn run(ctx: &mut Ctx) {
    let opts = group_options();
    let quick = ctx.tier == crate::ctx::Tier::Quick;
    // quick: every policy with <= 2 groups + 200 sampled 3-group policies; thorough: all <= 3 groups
    let mut pols = policies(2, &opts);
    let three = policies(3, &opts).into_iter().filter(|(_, g)| g.len() == 3).collect::<Vec<_>>();
    if quick {
        let mut r = crate::rng::Rng::new(ctx.seed ^ 0xC11);
        let mut t = three;
        r.shuffle(&mut t);
        pols.extend(t.into_iter().take((1000.0 * ctx.scale).ceil() as usize));
    } else {
        pols.extend(three);
    }
    // a few policies with more than 16 shares under one identifier (up to 16 members per group, several groups)
    for big in [(2usize, vec![(9usize, 9usize), (9, 9)]), (3, vec![(6, 6), (6, 6), (6, 6)]), (2, vec![(16, 16), (2, 2)]), (1, vec![(16, 16)]), (2, vec![(2, 16), (3, 16)]), (2, vec![(5, 10), (1, 1), (7, 8)])] {
        let at = (pols.len() / 7).max(1) * (1 + big.1.len() + big.0) % pols.len().max(1);
        pols.insert(at, big);
    }
    let total = pols.len() as u64;
    ctx.count_n("policies_total", if ctx.shard == 0 { total } else { 0 });
    for case in ctx.cases(total) {
        ctx.begin_case(case);
        let mut rng = ctx.rng(case);
        let (gt, groups) = pols[case as usize].clone();
        let (_m, orig) = universe(&mut rng, GenCfg::small(), case);
        let wrapped = orig.wrap_envelope();
        let key = SymmetricKey::new();
        let enc = wrapped.encrypt_subject(&key).unwrap();
        let gspecs: Result<Vec<SSKRGroupSpec>, _> = groups.iter().map(|(t, n)| SSKRGroupSpec::new(*t, *n)).collect();
        let spec = match gspecs.map_err(|e| e.to_string()).and_then(|g| SSKRSpec::new(gt, g).map_err(|e| e.to_string())) {
            Ok(s) => s,
            Err(_) => {
                ctx.count("policy_rejected_by_spec");
                continue;
            }
        };
        let shares = match trap::guard(|| enc.sskr_split(&spec, &key)) {
            Ok(Ok(s)) => s,
            Ok(Err(_)) => {
                ctx.count("policy_rejected_by_split");
                continue;
            }
            Err(p) => {
                ctx.violation(&format!("split-panic/{}", p.signature()), &format!("{:?}", p), J::s(format!("{}-of {:?}", gt, groups)));
                continue;
            }
        };
        ctx.count(&format!("policies_groups_{}", groups.len()));
        // sskr_split_flattened: as many shares as the policy says, all joinable to the original
        if let Ok(Ok(flat_shares)) = trap::guard(|| enc.sskr_split_flattened(&spec, &key)) {
            ctx.eval();
            ctx.count("flattened_split_checks");
            let want_n: usize = groups.iter().map(|(_, n)| *n).sum();
            let refs: Vec<&Envelope> = flat_shares.iter().collect();
            let joined = trap::guard(|| Envelope::sskr_join(&refs));
            if flat_shares.len() != want_n || !matches!(&joined, Ok(Ok(x)) if x.is_identical_to(&wrapped)) {
                ctx.violation("split-flattened", "sskr_split_flattened does not give all shares of the policy, or they do not join to the original", J::s(format!("{} of {:?}", gt, groups)));
            }
        }
        // sskr_split_using with a deterministic generator: same shares both times
        {
            let mut r1 = bc_rand::make_fake_random_number_generator();
            let mut r2 = bc_rand::make_fake_random_number_generator();
            if let (Ok(Ok(a)), Ok(Ok(b))) = (trap::guard(|| enc.sskr_split_using(&spec, &key, &mut r1)), trap::guard(|| enc.sskr_split_using(&spec, &key, &mut r2))) {
                ctx.count("split_using_checks");
                let fa: Vec<Vec<u8>> = a.iter().flatten().map(env_bytes).collect();
                let fb: Vec<Vec<u8>> = b.iter().flatten().map(env_bytes).collect();
                if fa != fb {
                    ctx.violation("split-using-nondeterministic", "sskr_split_using with equal generators gave different shares", J::s(format!("{} of {:?}", gt, groups)));
                }
            }
        }
        ctx.nontrivial(crate::rng::fnv(&format!("{}{:?}", gt, groups)));
        let pol = format!("{} of {:?}", gt, groups);
        // every share keeps the digest-preserving encrypted subject
        for (g, grp) in shares.iter().enumerate() {
            if grp.len() != groups[g].1 {
                ctx.violation("split/share-count", "wrong number of shares in a group", J::s(pol.clone()));
            }
            for s in grp {
                ctx.eval();
                ctx.count("share_subject_checks");
                if d32(&s.subject()) != d32(&wrapped) || !s.is_subject_encrypted() || s.assertions_with_predicate(known_values::SSKR_SHARE).len() != 1 {
                    ctx.violation("split/share-shape", "a share does not carry the digest-preserving encrypted subject and exactly one sskrShare", jhex(s));
                }
            }
        }
        if shares.len() != groups.len() {
            ctx.violation("split/group-count", "wrong number of groups", J::s(pol.clone()));
            continue;
        }
        // ALL subsets of all shares (exhaustive)
        let flat: Vec<(usize, usize)> = shares.iter().enumerate().flat_map(|(g, grp)| (0..grp.len()).map(move |m| (g, m))).collect();
        let n = flat.len();
        let masks: Vec<u64> = if n <= 12 {
            ctx.count("exhaustive_subset_policies");
            (0u64..(1u64 << n)).collect()
        } else {
            // large policies (more than 12 shares): the full set, the full set minus one share, and random dense
            // and sparse subsets
            ctx.count("large_policies_sampled_subsets");
            let full = if n >= 64 { u64::MAX } else { (1u64 << n) - 1 };
            let mut v = vec![full];
            for i in 0..n.min(8) {
                v.push(full & !(1u64 << ((i * 5) % n)));
            }
            for k in 0..120 {
                let mut m = rng.next_u64() & full;
                if k % 3 != 0 {
                    m |= rng.next_u64() & full; // denser
                }
                if k % 5 == 0 {
                    m |= rng.next_u64() & full;
                }
                v.push(m);
            }
            v
        };
        for mask in masks {
            let mut chosen: Vec<Vec<bool>> = groups.iter().map(|(_, c)| vec![false; *c]).collect();
            let mut subset: Vec<&Envelope> = Vec::new();
            for (i, (g, m)) in flat.iter().enumerate() {
                if mask >> i & 1 == 1 {
                    chosen[*g][*m] = true;
                    subset.push(&shares[*g][*m]);
                }
            }
            // vary the order in which shares are presented
            if mask % 3 == 1 {
                subset.reverse();
            }
            let want = !subset.is_empty() && quorum(gt, &groups, &chosen);
            ctx.eval();
            ctx.count(if want { "joins_quorum" } else { "joins_no_quorum" });
            let replay = || J::obj(vec![("policy", J::s(pol.clone())), ("subset_mask", J::s(format!("{:x}", mask))), ("original_hex", jhex(&orig))]);
            match trap::guard(|| Envelope::sskr_join(&subset)) {
                Err(p) => ctx.violation(&format!("join-panic/{}", p.signature()), &format!("{:?}", p), replay()),
                Ok(Ok(x)) => {
                    if !want {
                        ctx.violation("join/accepted-without-quorum", &format!("policy {}: subset mask {:b} has no quorum but join returned Ok", pol, mask), replay());
                    } else if !x.is_identical_to(&wrapped) || env_bytes(&x) != env_bytes(&wrapped) {
                        ctx.violation("join/wrong-envelope", "join returned an envelope that is not the original decrypted subject", replay());
                    }
                }
                Ok(Err(_)) => {
                    if want {
                        ctx.violation("join/quorum-rejected", &format!("policy {}: subset mask {:b} satisfies the policy but join failed", pol, mask), replay());
                    }
                }
            }
        }
        // share envelopes in other shapes: two shares merged onto one envelope; non-first share envelopes
        // whose (encrypted) subject has been elided - the shares they carry still count
        if n >= 2 {
            for _ in 0..12 {
                let mut chosen: Vec<Vec<bool>> = groups.iter().map(|(_, c)| vec![false; *c]).collect();
                let mut picked: Vec<(usize, usize)> = Vec::new();
                for (g, m) in &flat {
                    if rng.chance(1, 2) {
                        chosen[*g][*m] = true;
                        picked.push((*g, *m));
                    }
                }
                if picked.len() < 2 {
                    continue;
                }
                rng.shuffle(&mut picked);
                // merge the last two picked shares onto one envelope
                let (ga, ma) = picked[picked.len() - 1];
                let (gb, mb) = picked[picked.len() - 2];
                let share_b = shares[gb][mb].assertions_with_predicate(known_values::SSKR_SHARE)[0].clone();
                let merged = shares[ga][ma].add_assertion_envelope(share_b).unwrap();
                let mut owned: Vec<Envelope> = Vec::new();
                for (i, (g, m)) in picked[..picked.len() - 2].iter().enumerate() {
                    let s = shares[*g][*m].clone();
                    // every other one (never the first) with its subject elided
                    owned.push(if i > 0 && i % 2 == 1 { s.elide_removing_target(&s.subject()) } else { s });
                }
                let merged_first = rng.chance(1, 2);
                if merged_first {
                    owned.insert(0, merged);
                } else {
                    owned.push(merged);
                }
                let refs: Vec<&Envelope> = owned.iter().collect();
                let want = quorum(gt, &groups, &chosen);
                ctx.eval();
                ctx.count("joins_merged_or_elided_share_envelopes");
                match trap::guard(|| Envelope::sskr_join(&refs)) {
                    Err(p) => ctx.violation(&format!("join-panic/{}", p.signature()), &format!("{:?}", p), J::s(pol.clone())),
                    Ok(Ok(x)) => {
                        if !want {
                            ctx.violation("reshaped/accepted-without-quorum", "join over merged / subject-elided share envelopes succeeded without a quorum", J::s(pol.clone()));
                        } else if !x.is_identical_to(&wrapped) {
                            ctx.violation("reshaped/wrong-envelope", "join returned another envelope", J::s(pol.clone()));
                        }
                    }
                    Ok(Err(_)) => {
                        if want {
                            ctx.violation("reshaped/quorum-rejected", &format!("policy {}: the shares present satisfy the policy (two of them ride on one envelope, some envelopes have an elided subject) but join failed", pol), J::s(pol.clone()));
                        }
                    }
                }
            }
        }
        // shares mixed from two different splits
        let (_m2, other_orig) = universe(&mut rng, GenCfg::small(), case ^ 0x77);
        let other_wrapped = other_orig.wrap_envelope();
        let same_key = rng.chance(1, 2);
        let (enc2, key2) = if same_key { (enc.clone(), key.clone()) } else { let k2 = SymmetricKey::new(); (other_wrapped.encrypt_subject(&k2).unwrap(), k2) };
        if let Ok(Ok(shares2)) = trap::guard(|| enc2.sskr_split(&spec, &key2)) {
            let id1 = share_id(&shares[0][0]);
            let id2 = share_id(&shares2[0][0]);
            if id1.is_some() && id1 == id2 {
                ctx.count("mixed_skipped_identifier_collision");
            } else {
                for _ in 0..24 {
                    let mut c1: Vec<Vec<bool>> = groups.iter().map(|(_, c)| vec![false; *c]).collect();
                    let mut c2 = c1.clone();
                    let mut subset: Vec<&Envelope> = Vec::new();
                    for (g, grp) in shares.iter().enumerate() {
                        for (m, s) in grp.iter().enumerate() {
                            if rng.chance(1, 2) {
                                c1[g][m] = true;
                                subset.push(s);
                            }
                        }
                    }
                    let n1 = subset.len();
                    for (g, grp) in shares2.iter().enumerate() {
                        for (m, s) in grp.iter().enumerate() {
                            if rng.chance(1, 2) {
                                c2[g][m] = true;
                                subset.push(s);
                            }
                        }
                    }
                    if subset.is_empty() {
                        continue;
                    }
                    // first envelope decides what may come back
                    let first_is_split1 = if rng.chance(1, 2) && n1 > 0 && n1 < subset.len() {
                        subset.swap(0, n1);
                        false
                    } else {
                        n1 > 0
                    };
                    let q1 = quorum(gt, &groups, &c1);
                    let q2 = quorum(gt, &groups, &c2);
                    let (first_wrapped, want) = if first_is_split1 { (&wrapped, q1 || (same_key && q2)) } else { (if same_key { &wrapped } else { &other_wrapped }, q2 || (same_key && q1)) };
                    ctx.eval();
                    ctx.count(if same_key { "mixed_joins_same_key" } else { "mixed_joins_different_envelopes" });
                    match trap::guard(|| Envelope::sskr_join(&subset)) {
                        Err(p) => ctx.violation(&format!("mixed-join-panic/{}", p.signature()), &format!("{:?}", p), J::s(pol.clone())),
                        Ok(Ok(x)) => {
                            if !x.is_identical_to(first_wrapped) {
                                ctx.violation("mixed/wrong-envelope", "join over mixed splits returned an envelope other than the first share's original", J::s(pol.clone()));
                            } else if !want {
                                ctx.violation("mixed/accepted-without-quorum", "join over mixed splits succeeded without a quorum for the first share's split", J::s(pol.clone()));
                            }
                        }
                        Ok(Err(_)) => {
                            if want {
                                ctx.violation("mixed/quorum-rejected", &format!("policy {}: the first share's split has a quorum among the mixed shares but join failed", pol), J::s(pol.clone()));
                            }
                        }
                    }
                }
            }
        }
        // the same envelope split THREE times (same content key, three identifiers): one share of the first split
        // comes first, then a complete set of the second, then one share of the third - a quorum is present
        {
            let r = trap::guard(|| (enc.sskr_split(&spec, &key), enc.sskr_split(&spec, &key)));
            if let Ok((Ok(sy), Ok(sz))) = r {
                let ids = [share_id(&shares[0][0]), share_id(&sy[0][0]), share_id(&sz[0][0])];
                if ids[0] != ids[1] && ids[1] != ids[2] && ids[0] != ids[2] {
                    ctx.eval();
                    ctx.count("three_split_joins");
                    let mut subset: Vec<&Envelope> = vec![&shares[0][0]];
                    subset.extend(sy.iter().flatten());
                    subset.push(&sz[0][0]);
                    // quorum of the first split alone? then the answer is Ok anyway; otherwise it rests on the second
                    match trap::guard(|| Envelope::sskr_join(&subset)) {
                        Ok(Ok(x)) if x.is_identical_to(&wrapped) => {}
                        Ok(Ok(_)) => ctx.violation("three-splits/wrong-envelope", "join returned another envelope", J::s(pol.clone())),
                        Ok(Err(err)) => ctx.violation("three-splits/quorum-rejected", &format!("policy {}: shares of three splits of the same envelope, the second one complete, but join failed: {}", pol, err), J::s(pol.clone())),
                        Err(p) => ctx.violation(&format!("three-splits/panic/{}", p.signature()), &format!("{:?}", p), J::s(pol.clone())),
                    }
                }
            }
        }
        // every share's OBJECT carries assertions of its own (a note, a salt): the shares still count
        {
            ctx.eval();
            ctx.count("joins_with_decorated_share_objects");
            let decorated: Vec<Envelope> = shares
                .iter()
                .flatten()
                .enumerate()
                .map(|(i, s)| {
                    let a = s.assertions_with_predicate(known_values::SSKR_SHARE)[0].clone();
                    let obj = a.as_object().unwrap();
                    let obj = if i % 2 == 0 { obj.add_assertion("note", i as u64) } else { obj.add_salt() };
                    s.remove_assertion(a).add_assertion(known_values::SSKR_SHARE, obj)
                })
                .collect();
            match trap::guard(|| Envelope::sskr_join(&decorated.iter().collect::<Vec<&Envelope>>())) {
                Ok(Ok(x)) if x.is_identical_to(&wrapped) => {}
                Ok(Ok(_)) => ctx.violation("decorated-objects/wrong-envelope", "join returned another envelope", J::s(pol.clone())),
                Ok(Err(err)) => ctx.violation("decorated-objects/quorum-rejected", &format!("policy {}: all shares present, each share object carrying an assertion of its own, but join failed: {}", pol, err), J::s(pol.clone())),
                Err(p) => ctx.violation(&format!("decorated-objects/panic/{}", p.signature()), &format!("{:?}", p), J::s(pol.clone())),
            }
        }
        // share leaves re-tagged with the LEGACY share tag #6.309 (SSKRShare reads both): the complete set still joins;
        // and genuine shares of a secret that is not a 32-byte content key never make join panic
        {
            ctx.eval();
            ctx.count("joins_with_legacy_tagged_shares");
            let legacy: Vec<Envelope> = shares
                .iter()
                .flatten()
                .enumerate()
                .map(|(i, s)| {
                    let a = s.assertions_with_predicate(known_values::SSKR_SHARE)[0].clone();
                    let obj = a.as_object().unwrap();
                    match obj.try_leaf().ok().and_then(|c| c.try_into_tagged_value().ok()) {
                        // (every other share keeps the current tag)
                        Some((_, inner)) if i % 2 == 0 => s.remove_assertion(a).add_assertion(known_values::SSKR_SHARE, dcbor::CBOR::to_tagged_value(309u64, inner)),
                        _ => s.clone(),
                    }
                })
                .collect();
            // does the component type still read the legacy tag at all? (it does in bc-components 0.19)
            let reads_legacy = legacy.iter().any(|s| s.assertions_with_predicate(known_values::SSKR_SHARE)[0].as_object().unwrap().extract_subject::<SSKRShare>().is_ok());
            if reads_legacy {
                match trap::guard(|| Envelope::sskr_join(&legacy.iter().collect::<Vec<&Envelope>>())) {
                    Ok(Ok(x)) if x.is_identical_to(&wrapped) => {}
                    Ok(Ok(_)) => ctx.violation("legacy-tag/wrong-envelope", "join returned another envelope", J::s(pol.clone())),
                    Ok(Err(err)) => ctx.violation("legacy-tag/quorum-rejected", &format!("policy {}: all shares present, half of them under the legacy tag #6.309 (which SSKRShare reads), but join failed: {}", pol, err), J::s(pol.clone())),
                    Err(p) => ctx.violation(&format!("legacy-tag/panic/{}", p.signature()), &format!("{:?}", p), J::s(pol.clone())),
                }
            }
            let n = *rng.pick(&[16usize, 18, 24, 30]);
            if let Ok(secret) = bc_components::SSKRSecret::new(rng.bytes(n)) {
                let one = SSKRSpec::new(1, vec![SSKRGroupSpec::new(1, 1).unwrap()]).unwrap();
                if let Ok(sh) = bc_components::sskr_generate(&one, &secret) {
                    let carrier = enc.add_assertion(known_values::SSKR_SHARE, sh[0][0].clone());
                    ctx.count("joins_with_short_secret_shares");
                    match trap::guard(|| Envelope::sskr_join(&[&carrier])) {
                        Ok(Ok(x)) => ctx.violation("short-secret/accepted", "join succeeded with shares of a secret that is not the content key", jhex(&x)),
                        Ok(Err(_)) => {}
                        Err(p) => ctx.violation(&format!("short-secret/panic/{}", p.signature()), &format!("{:?}", p), jhex(&carrier)),
                    }
                }
            }
        }
        // a forged FIRST envelope: a bare encrypted element made with the right content key that declares the
        // original's digest but holds something else; the genuine shares follow. Never another envelope.
        {
            ctx.eval();
            ctx.count("joins_with_forged_first_envelope");
            let other = Envelope::new(format!("Pay Mallory {}", case)).wrap_envelope();
            let declared = bc_components::DigestProvider::digest(&wrapped).into_owned();
            let msg = key.encrypt_with_digest(other.tagged_cbor().to_cbor_data(), &declared, None::<bc_components::Nonce>);
            if let Ok(forged) = Envelope::try_from(msg) {
                let mut subset: Vec<&Envelope> = vec![&forged];
                subset.extend(shares.iter().flatten());
                match trap::guard(|| Envelope::sskr_join(&subset)) {
                    Ok(Ok(x)) if x.is_identical_to(&wrapped) => {}
                    Ok(Ok(x)) => ctx.violation("forged-first/other-envelope-returned", "join returned an envelope that is not the one that was shared (a forged first envelope declaring the original's digest)", jhex(&x)),
                    Ok(Err(_)) => {}
                    Err(p) => ctx.violation(&format!("forged-first/panic/{}", p.signature()), &format!("{:?}", p), J::s(pol.clone())),
                }
            }
        }
        // decorated / obscured share assertions must not panic
        ctx.eval();
        ctx.count("decorated_share_checks");
        let s0 = &shares[0][0];
        let a = s0.assertions_with_predicate(known_values::SSKR_SHARE)[0].clone();
        let salted = s0.remove_assertion(a.clone()).add_assertion_envelope(a.add_salt()).unwrap();
        let elided_obj = s0.elide_removing_target(&a.as_object().unwrap());
        // a share whose data is cut short (what a hostile or damaged share envelope may carry)
        let cut = rng.below(6);
        let short = s0.remove_assertion(a.clone()).add_assertion(known_values::SSKR_SHARE, SSKRShare::from_data(rng.bytes(cut)));
        let junk_obj = s0.remove_assertion(a.clone()).add_assertion(known_values::SSKR_SHARE, "not a share");
        for (label, v) in [("salted", salted), ("elided-object", elided_obj), ("short-share-data", short), ("non-share-object", junk_obj)] {
            // the odd envelope comes first or last among the genuine shares
            let mut subset: Vec<&Envelope> = Vec::new();
            let odd_first = rng.chance(1, 2);
            if odd_first {
                subset.push(&v);
            }
            for grp in &shares {
                for s in grp {
                    subset.push(s);
                }
            }
            if !odd_first {
                subset.push(&v);
            }
            match trap::guard(|| Envelope::sskr_join(&subset)) {
                Err(p) => ctx.violation(&format!("decorated-join-panic/{}/{}", label, p.signature()), &format!("{:?}", p), jhex(&v)),
                Ok(Ok(x)) => {
                    if !x.is_identical_to(&wrapped) {
                        ctx.violation("decorated/wrong-envelope", "join returned another envelope", jhex(&v));
                    }
                }
                Ok(Err(_)) => {}
            }
            // whatever that join did, the next joins over the same split must be judged on their own
            // shares only: one share below the policy, and the complete set
            ctx.eval();
            ctx.count("joins_after_failed_join");
            let mut single: Vec<Vec<bool>> = groups.iter().map(|(_, c)| vec![false; *c]).collect();
            single[0][0] = true;
            let single_quorum = quorum(gt, &groups, &single);
            match trap::guard(|| (Envelope::sskr_join(&[&shares[0][0]]).is_ok(), Envelope::sskr_join(&shares.iter().flatten().collect::<Vec<&Envelope>>()))) {
                Ok((one, all)) => {
                    if one != single_quorum {
                        ctx.violation("after-failed-join/single-share", &format!("policy {}: right after a failed join, joining one share returned ok={} (quorum {})", pol, one, single_quorum), J::s(pol.clone()));
                    }
                    match all {
                        Ok(x) => {
                            if !x.is_identical_to(&wrapped) {
                                ctx.violation("after-failed-join/wrong-envelope", "join of all shares returned another envelope", J::s(pol.clone()));
                            }
                        }
                        Err(_) => ctx.violation("after-failed-join/quorum-rejected", &format!("policy {}: right after a failed join, joining ALL shares failed", pol), J::s(pol.clone())),
                    }
                }
                Err(p) => ctx.violation(&format!("after-failed-join/panic/{}", p.signature()), &format!("{:?}", p), J::s(pol.clone())),
            }
        }
        ctx.sample(|| J::obj(vec![("case", J::i(case)), ("policy", J::s(pol.clone())), ("shares", J::i(n as u64)), ("subsets", J::i(1u64 << n))]));
    }
    // sampled larger policies (thorough): up to 4 groups x 6 members, random subsets
    if !quick {
        let extra = ctx.n(0, 400);
        for case in ctx.cases(extra) {
            let mut rng = ctx.rng(case ^ 0xbeef_0000);
            let g = rng.range(1, 4);
            let groups: Vec<(usize, usize)> = (0..g).map(|_| { let n = rng.range(1, 6); (rng.range(1, n), n) }).collect();
            let gt = rng.range(1, g);
            let Ok(spec) = groups.iter().map(|(t, n)| SSKRGroupSpec::new(*t, *n)).collect::<Result<Vec<_>, _>>().map_err(|e| e.to_string()).and_then(|gs| SSKRSpec::new(gt, gs).map_err(|e| e.to_string())) else { continue };
            let (_m, orig) = universe(&mut rng, GenCfg::small(), case);
            let wrapped = orig.wrap_envelope();
            let key = SymmetricKey::new();
            let enc = wrapped.encrypt_subject(&key).unwrap();
            let Ok(Ok(shares)) = trap::guard(|| enc.sskr_split(&spec, &key)) else { continue };
            ctx.count("large_policies");
            for _ in 0..200 {
                let mut chosen: Vec<Vec<bool>> = groups.iter().map(|(_, c)| vec![false; *c]).collect();
                let mut subset: Vec<&Envelope> = Vec::new();
                let p = rng.range(1, 3);
                for (gi, grp) in shares.iter().enumerate() {
                    for (m, s) in grp.iter().enumerate() {
                        if rng.chance(p as u32, 4) {
                            chosen[gi][m] = true;
                            subset.push(s);
                        }
                    }
                }
                let want = !subset.is_empty() && quorum(gt, &groups, &chosen);
                ctx.eval();
                ctx.count(if want { "joins_quorum" } else { "joins_no_quorum" });
                match trap::guard(|| Envelope::sskr_join(&subset)) {
                    Err(p) => ctx.violation(&format!("join-panic/{}", p.signature()), &format!("{:?}", p), J::s(format!("{} of {:?}", gt, groups))),
                    Ok(Ok(x)) => {
                        if !want {
                            ctx.violation("join/accepted-without-quorum", "join succeeded without a quorum", J::s(format!("{} of {:?}", gt, groups)));
                        } else if !x.is_identical_to(&wrapped) {
                            ctx.violation("join/wrong-envelope", "join returned another envelope", J::s(format!("{} of {:?}", gt, groups)));
                        }
                    }
                    Ok(Err(_)) => {
                        if want {
                            ctx.violation("join/quorum-rejected", &format!("{} of {:?}: quorum present but join failed", gt, groups), J::s(format!("{} of {:?}", gt, groups)));
                        }
                    }
                }
            }
        }
    }
}
