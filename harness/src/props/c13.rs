//! C13 — compression round-trips and preserves digests (fault enumeration on the compressed element).

use bc_components::{Compressed, Digest};
use bc_envelope::prelude::*;

use super::common::*;
use crate::ctx::Ctx;
use crate::gen::{self, action, Act};
use crate::json::J;
use crate::pos::{self, tree_of};
use crate::spec::{self, encode, Item, Kind};
use crate::trap;

/// `forged` (bytes of a tagged envelope holding a tampered compressed element): decoding may
/// reject it; if it decodes, uncompress must be Err or return exactly `orig`.
fn expect_reject_or_same(ctx: &mut Ctx, forged: &[u8], orig: &Envelope, class: &str) {
    ctx.eval();
    ctx.count(&format!("fault_{}", class));
    let f = match trap::guard(|| Envelope::try_from_cbor_data(forged.to_vec())) {
        Ok(Ok(f)) => f,
        Ok(Err(_)) => {
            ctx.count("fault_rejected_at_decode");
            return;
        }
        Err(p) => {
            ctx.violation(&format!("fault-decode-panic/{}", p.signature()), &format!("{:?}", p), J::s(hex::encode(forged)));
            return;
        }
    };
    match trap::guard(|| f.uncompress()) {
        Ok(Err(_)) => ctx.count("fault_rejected_at_uncompress"),
        Ok(Ok(out)) => {
            if out.is_identical_to(orig) && env_bytes(&out) == env_bytes(orig) {
                ctx.count("fault_harmless_same_envelope");
            } else {
                ctx.violation(
                    &format!("corrupt-accepted/{}", class),
                    "uncompress returned a different envelope for a corrupted / mis-declared compressed element",
                    J::obj(vec![("forged", J::s(hex::encode(forged))), ("original", jhex(orig)), ("output", jhex(&out))]),
                );
            }
        }
        Err(p) => ctx.violation(&format!("fault-uncompress-panic/{}/{}", class, p.signature()), &format!("{:?}", p), J::s(hex::encode(forged))),
    }
}

/// the same fault, seen through uncompress_subject(): the forged element is the subject of a node
fn expect_reject_as_subject(ctx: &mut Ctx, forged: &[u8], orig: &Envelope, class: &str) {
    let Ok(Ok(f)) = trap::guard(|| Envelope::try_from_cbor_data(forged.to_vec())) else { return };
    if !f.is_compressed() {
        return;
    }
    ctx.eval();
    ctx.count("faults_as_subject");
    let outer = f.add_assertion("outer", 1);
    match trap::guard(|| outer.uncompress_subject()) {
        Ok(Err(_)) => ctx.count("fault_rejected_at_uncompress_subject"),
        Ok(Ok(u)) => {
            let s = u.subject();
            if !(s.is_identical_to(orig) && gen::root_digest(&u) == gen::root_digest(&outer)) {
                ctx.violation(
                    &format!("corrupt-subject-accepted/{}", class),
                    if s.is_compressed() { "uncompress_subject returned Ok but left the corrupt / mis-declared compressed subject in place" } else { "uncompress_subject returned a different subject for a corrupt / mis-declared compressed subject" },
                    J::obj(vec![("forged", J::s(hex::encode(forged))), ("original", jhex(orig))]),
                );
            }
        }
        Err(p) => ctx.violation(&format!("fault-uncompress_subject-panic/{}/{}", class, p.signature()), &format!("{:?}", p), J::s(hex::encode(forged))),
    }
}

fn faults(ctx: &mut Ctx, e: &Envelope, comp: &Envelope, rng: &mut crate::rng::Rng, exhaustive: bool) {
    let bytes = env_bytes(comp);
    let item = match spec::parse_item(&bytes) {
        Ok(i) => i,
        Err(_) => return,
    };
    // #6.200(#6.40003([crc, size, data, #6.40001(digest)]))
    let (crc, size, data, dig) = match &item {
        Item::Tag(200, inner) => match &**inner {
            Item::Tag(40003, arr) => match &**arr {
                Item::Array(xs) if xs.len() == 4 => match (&xs[0], &xs[1], &xs[2], &xs[3]) {
                    (Item::UInt(c), Item::UInt(s), Item::Bytes(d), g) => (*c, *s, d.clone(), g.clone()),
                    _ => return,
                },
                _ => return,
            },
            _ => return,
        },
        _ => return,
    };
    let mk = |crc: u64, size: u64, data: &[u8], dig: &Item| encode(&Item::Tag(200, Box::new(Item::Tag(40003, Box::new(Item::Array(vec![Item::UInt(crc), Item::UInt(size), Item::Bytes(data.to_vec()), dig.clone()]))))));
    ctx.count(if (data.len() as u64) < size { "payload_deflated" } else { "payload_stored_raw" });
    // every single-bit flip of the payload (sampled above 256 bytes unless exhaustive)
    // (exhaustive up to 8 KiB of payload: every flip costs a copy and an inflation of the whole payload)
    let exhaustive = exhaustive && data.len() <= 8192;
    let bits: Vec<usize> = if exhaustive || data.len() <= 256 { (0..data.len() * 8).collect() } else { (0..1024).map(|_| rng.below(data.len() * 8)).collect() };
    if exhaustive || data.len() <= 256 {
        ctx.count("exhaustive_bitflip_payloads");
    }
    for b in bits {
        let mut d = data.clone();
        d[b / 8] ^= 1 << (b % 8);
        expect_reject_or_same(ctx, &mk(crc, size, &d, &dig), e, "data-bitflip");
    }
    for b in 0..32 {
        expect_reject_or_same(ctx, &mk(crc ^ (1 << b), size, &data, &dig), e, "crc-bitflip");
    }
    // a handful of the same faults through the subject-only entry point
    if !data.is_empty() {
        for _ in 0..4 {
            let b = rng.below(data.len() * 8);
            let mut d = data.clone();
            d[b / 8] ^= 1 << (b % 8);
            expect_reject_as_subject(ctx, &mk(crc, size, &d, &dig), e, "data-bitflip");
        }
        expect_reject_as_subject(ctx, &mk(crc ^ 1, size, &data, &dig), e, "crc-bitflip");
        expect_reject_as_subject(ctx, &mk(crc, size, &data[..data.len() - 1], &dig), e, "data-truncate");
    }
    expect_reject_as_subject(ctx, &mk(crc, size, &data, &Item::Tag(40001, Box::new(Item::Bytes(rng.bytes(32))))), e, "digest-replaced");
    for b in 0..20 {
        expect_reject_or_same(ctx, &mk(crc, size ^ (1 << b), &data, &dig), e, "size-bitflip");
    }
    if !data.is_empty() {
        expect_reject_or_same(ctx, &mk(crc, size, &data[..data.len() - 1], &dig), e, "data-truncate");
        expect_reject_or_same(ctx, &mk(crc, size, &data[..data.len() / 2], &dig), e, "data-truncate");
        expect_reject_or_same(ctx, &mk(crc, size, &data[1..], &dig), e, "data-truncate");
    }
    expect_reject_or_same(ctx, &mk(crc, size, &[], &dig), e, "data-empty");
    // declared digest replaced by another digest
    let other = Item::Tag(40001, Box::new(Item::Bytes(rng.bytes(32))));
    expect_reject_or_same(ctx, &mk(crc, size, &data, &other), e, "digest-replaced");
    // content Y with declared digest d(E)
    let yn = rng.next_u64();
    let y = match rng.below(7) {
        0 => Envelope::new(format!("Y-{}", yn)),
        1 => Envelope::new(format!("Y-{}", yn)).wrap_envelope(),
        2 => Envelope::new_assertion("yk", yn),
        3 => Envelope::new(KnownValue::new(yn % 97)),
        4 => Envelope::new(format!("Y-{}", yn)).elide(),
        5 => Envelope::new(format!("Y-{} {}", yn, "y".repeat(200))).add_assertion("k", 2).compress().unwrap(),
        _ => Envelope::new(format!("Y-{}", yn)).add_assertion("k", 1),
    };
    let forged = Compressed::from_uncompressed_data(env_bytes(&y), Some(Digest::from_data(gen::root_digest(e))));
    if gen::root_digest(&y) == gen::root_digest(e) {
        // Y happens to be the original itself: nothing is mis-declared
    } else if let Ok(f) = Envelope::try_from(forged) {
        expect_reject_or_same(ctx, &env_bytes(&f), e, "misdeclared-content");
        expect_reject_as_subject(ctx, &env_bytes(&f), e, "misdeclared-content");
    }
    // a payload whose leaf uses a spelling that the CBOR decoder tolerates but that is not the deterministic encoding
    // of the value it decodes to (a single-precision float holding a negative integer), declared under the SHA-256 of
    // those raw item bytes: whatever uncompress returns must carry the digest it declares - so this is refused
    for raw_item in [&[0xfau8, 0xcf, 0x80, 0x00, 0x00][..], &[0xfa, 0xd7, 0x7f, 0xe0, 0x80][..], &[0xfb, 0xc1, 0xe0, 0x00, 0x00, 0x00, 0x20, 0x00, 0x00][..]] {
        use sha2::{Digest as _, Sha256};
        let mut payload = vec![0xd8, 0xc8, 0xd8, 0xc9];
        payload.extend_from_slice(raw_item);
        let declared: [u8; 32] = Sha256::digest(raw_item).into();
        let forged = Compressed::from_uncompressed_data(payload, Some(Digest::from_data(declared)));
        if let Ok(f) = Envelope::try_from(forged) {
            ctx.eval();
            ctx.count("fault_noncanonical-payload-under-raw-digest");
            match trap::guard(|| f.uncompress()) {
                Ok(Ok(u)) => {
                    // accepted: then the result must really have that digest, also after a round trip through bytes
                    let again = Envelope::try_from_cbor_data(env_bytes(&u)).map(|x| gen::root_digest(&x));
                    if gen::root_digest(&u) != declared || again.ok() != Some(declared) {
                        ctx.violation("corrupt-accepted/noncanonical-payload", "uncompress accepted a payload that does not hash to the declared digest (non-deterministic spelling declared under the hash of its raw bytes)", jhex(&f));
                    }
                }
                Ok(Err(_)) => {}
                Err(p) => ctx.violation(&format!("uncompress-panic/{}", p.signature()), &format!("{:?}", p), jhex(&f)),
            }
        }
    }
    // near-miss declarations: the real content under a digest that differs in exactly one bit
    {
        let real = env_bytes(e);
        let mut bits: Vec<usize> = (248..256).chain(0..8).collect();
        for _ in 0..8 {
            bits.push(rng.below(256));
        }
        for b in bits {
            let mut d = gen::root_digest(e);
            d[b / 8] ^= 1 << (b % 8);
            let forged = Compressed::from_uncompressed_data(real.clone(), Some(Digest::from_data(d)));
            if let Ok(f) = Envelope::try_from(forged) {
                ctx.eval();
                ctx.count("fault_near-miss-digest");
                match trap::guard(|| (f.uncompress(), f.add_assertion("k", 1).uncompress_subject())) {
                    Ok((a, s)) => {
                        if a.is_ok() {
                            ctx.violation("corrupt-accepted/near-miss-digest", &format!("uncompress accepted content whose digest differs from the declared one in bit {}", b), jhex(&f));
                        }
                        if let Ok(u) = s {
                            if !u.subject().is_compressed() || true {
                                ctx.violation("corrupt-subject-accepted/near-miss-digest", &format!("uncompress_subject accepted (or silently kept) a subject whose declared digest differs in bit {}", b), jhex(&f));
                            }
                        }
                    }
                    Err(p) => ctx.violation(&format!("fault-near-miss-panic/{}", p.signature()), &format!("{:?}", p), jhex(&f)),
                }
            }
        }
    }
    // content that is not an envelope
    let junk = Compressed::from_uncompressed_data(dcbor::CBOR::from("not an envelope").to_cbor_data(), Some(Digest::from_data(gen::root_digest(e))));
    if let Ok(f) = Envelope::try_from(junk) {
        expect_reject_or_same(ctx, &env_bytes(&f), e, "misdeclared-nonenvelope");
    }
}

pub fn run(ctx: &mut Ctx) {
    let total = ctx.n(16_000, 8_000);
    for case in ctx.cases(total) {
        ctx.begin_case(case);
        let mut rng = ctx.rng(case);
        let mut cfg = cfg_for(ctx, case);
        cfg.big = case % 3 != 0;
        cfg.node_subject = case % 5 == 4;
        let (_m, e) = universe(&mut rng, cfg, case);
        // now and then a payload that deflates better than 1000:1 (a long run of one byte)
        let e = if case % 1500 == 77 {
            ctx.count("extreme_ratio_payloads");
            let n = *rng.pick(&[700_000usize, 1 << 20, 2_000_000]);
            Envelope::new(dcbor::ByteString::from(vec![if rng.chance(1, 2) { 0u8 } else { b' ' }; n])).add_assertion("kind", "run")
        } else {
            e
        };
        let t = tree_of(&e);
        ctx.nontrivial(t.shape_hash());
        let subj_kind = if t.kind == Kind::Node { t.children[0].kind } else { t.kind };
        ctx.count(&format!("subject_case_{:?}", subj_kind));
        let replay = || jhex(&e);

        // whole: compress / uncompress, idempotence
        ctx.eval();
        let c = match trap::guard(|| e.compress()) {
            Ok(Ok(c)) => c,
            Ok(Err(err)) => {
                ctx.violation("compress/err", &format!("{}", err), replay());
                continue;
            }
            Err(p) => {
                ctx.violation(&format!("compress/panic/{}", p.signature()), &format!("{:?}", p), replay());
                continue;
            }
        };
        if gen::root_digest(&c) != t.digest || !c.is_compressed() {
            ctx.violation("compress/digest", "compress() changed the digest or did not compress", replay());
        }
        check_spec(ctx, &c, "compress");
        match c.compress() {
            Ok(cc) => {
                ctx.count("idempotence_checked");
                if !cc.is_identical_to(&c) || env_bytes(&cc) != env_bytes(&c) {
                    ctx.violation("compress/not-idempotent", "compress(compress(E)) differs from compress(E)", replay());
                }
            }
            Err(err) => ctx.violation("compress-twice/err", &format!("{}", err), replay()),
        }
        match trap::guard(|| c.uncompress()) {
            Ok(Ok(u)) => {
                if let Some(d) = pos::diff(&tree_of(&u), &t) {
                    ctx.violation(&format!("roundtrip/tree/{}", diff_class(&d)), &d, replay());
                }
                if !u.is_identical_to(&e) || env_bytes(&u) != env_bytes(&e) {
                    ctx.violation("roundtrip/not-identical", "uncompress(compress(E)) is not identical to E", replay());
                }
            }
            Ok(Err(err)) => ctx.violation("roundtrip/err", &format!("{}", err), replay()),
            Err(p) => ctx.violation(&format!("roundtrip/panic/{}", p.signature()), &format!("{:?}", p), replay()),
        }

        // subject only
        ctx.eval();
        match trap::guard(|| e.compress_subject()) {
            Ok(Ok(cs)) => {
                ctx.count("compress_subject");
                if gen::root_digest(&cs) != t.digest {
                    ctx.violation("compress_subject/digest", "compress_subject changed the digest", replay());
                }
                check_spec(ctx, &cs, "compress_subject");
                if let Ok(cs2) = cs.compress_subject() {
                    if env_bytes(&cs2) != env_bytes(&cs) {
                        ctx.violation("compress_subject/not-idempotent", "second compress_subject changed the envelope", replay());
                    }
                }
                match trap::guard(|| cs.uncompress_subject()) {
                    Ok(Ok(u)) => {
                        if gen::root_digest(&u) != t.digest {
                            ctx.violation("uncompress_subject/digest", "uncompress_subject changed the digest", replay());
                        } else if !u.is_identical_to(&e) || env_bytes(&u) != env_bytes(&e) {
                            ctx.violation("uncompress_subject/not-identical", "uncompress_subject(compress_subject(E)) is not identical to E", replay());
                        }
                    }
                    Ok(Err(err)) => ctx.violation("uncompress_subject/err", &format!("{}", err), replay()),
                    Err(p) => ctx.violation(&format!("uncompress_subject/panic/{}", p.signature()), &format!("{:?}", p), replay()),
                }
            }
            Ok(Err(err)) => ctx.violation("compress_subject/err", &format!("{}", err), replay()),
            Err(p) => ctx.violation(&format!("compress_subject/panic/{}", p.signature()), &format!("{:?}", p), replay()),
        }

        // a compressed envelope (of any case, also a node) used as the subject of further assertions
        ctx.eval();
        ctx.count(&format!("compressed_as_subject_{:?}", t.kind));
        let outer = c.add_assertion("outer-pred", case).add_assertion(known_values::NOTE, "n");
        let outer_digest = gen::root_digest(&outer);
        check_spec(ctx, &outer, "compressed as subject");
        match trap::guard(|| outer.uncompress_subject()) {
            Ok(Ok(u)) => {
                let ut = tree_of(&u);
                if ut.digest != outer_digest {
                    ctx.violation(&format!("compressed-as-subject/digest-changed/{:?}", t.kind), "uncompress_subject changed the digest of an envelope whose subject is a compressed envelope", J::obj(vec![("inner", jhex(&e)), ("outer", jhex(&outer)), ("result", jhex(&u))]));
                } else {
                    check_spec(ctx, &u, "uncompressed subject");
                    if ut.kind != Kind::Node || pos::diff(&ut.children[0], &t).is_some() {
                        ctx.violation("compressed-as-subject/subject-differs", "the uncompressed subject is not the original envelope", J::obj(vec![("inner", jhex(&e)), ("outer", jhex(&outer))]));
                    }
                    // and back again
                    if let Ok(Ok(back)) = trap::guard(|| u.compress_subject()) {
                        if gen::root_digest(&back) != outer_digest {
                            ctx.violation("compressed-as-subject/recompress-digest", "compress_subject changed the digest", J::obj(vec![("inner", jhex(&e))]));
                        }
                    }
                }
            }
            Ok(Err(err)) => ctx.violation("compressed-as-subject/err", &format!("{}", err), jhex(&outer)),
            Err(p) => ctx.violation(&format!("compressed-as-subject/panic/{}", p.signature()), &format!("{:?}", p), jhex(&outer)),
        }

        // whole-envelope compress on envelopes whose subject is already compressed and on pre-obscured
        // variants: compress() must really compress (same digest) and uncompress back to exactly that
        {
            let key = fresh_key(&mut rng);
            let mut variants: Vec<(&str, Envelope)> = vec![("outer-with-compressed-subject", outer.clone()), ("obscured-variant", gen::obscure_random(&e, &mut rng, 2, &key))];
            if let Ok(cs) = e.compress_subject() {
                variants.push(("after-compress_subject", cs));
            }
            for (label, x) in variants {
                // (a root that is itself compressed is the idempotence case, judged above)
                if x.is_elided() || x.is_encrypted() || x.is_compressed() {
                    continue;
                }
                ctx.eval();
                ctx.count("whole_compress_on_variants");
                match trap::guard(|| x.compress()) {
                    Ok(Ok(cx)) => {
                        if !cx.is_compressed() || gen::root_digest(&cx) != gen::root_digest(&x) {
                            ctx.violation(&format!("compress-variant/not-compressed/{}", label), "compress() did not return a compressed envelope with the same digest", jhex(&x));
                            continue;
                        }
                        match cx.uncompress() {
                            Ok(u) => {
                                if !u.is_identical_to(&x) || env_bytes(&u) != env_bytes(&x) {
                                    ctx.violation(&format!("compress-variant/roundtrip/{}", label), "uncompress(compress(X)) is not identical to X", jhex(&x));
                                }
                            }
                            Err(err) => ctx.violation(&format!("compress-variant/uncompress-err/{}", label), &format!("{}", err), jhex(&x)),
                        }
                    }
                    Ok(Err(err)) => ctx.violation(&format!("compress-variant/err/{}", label), &format!("{}", err), jhex(&x)),
                    Err(p) => ctx.violation(&format!("compress-variant/panic/{}/{}", label, p.signature()), &format!("{:?}", p), jhex(&x)),
                }
            }
        }

        // Compress elision action: every produced element uncompresses to the original element
        let flat = t.flatten();
        if flat.len() > 1 {
            let target = flat[rng.range(1, flat.len() - 1)].1;
            let key = fresh_key(&mut rng);
            let r = e.elide_removing_set_with_action(&gen::digest_set(&[target.digest]), &action(Act::Compress, &key));
            for (p2, x) in pos::positions(&r) {
                if x.is_compressed() {
                    ctx.eval();
                    ctx.count("roundtrip_elision_elements");
                    match x.uncompress() {
                        Ok(d) => {
                            if t.at(&p2).map(|w| pos::diff(&tree_of(&d), w).is_some()).unwrap_or(true) {
                                ctx.violation("roundtrip-element/differs", "element produced by the Compress action does not uncompress to the original element", replay());
                            }
                        }
                        Err(err) => ctx.violation("roundtrip-element/err", &format!("{}", err), replay()),
                    }
                }
            }
        }

        // an assertion swapped for its compressed form and back through replace_assertion (the two arguments
        // are digest-equal, the result must hold the form that was given)
        // (not on a node whose subject is itself a node: removing its last assertion leaves that inner node, and
        // adding to it extends the inner node - a different, legitimate structure)
        if t.kind == Kind::Node && t.children.len() > 1 && t.children[0].kind != Kind::Node {
            let asr = e.assertions();
            let a = asr[rng.below(asr.len())].clone();
            if !a.is_obscured() {
                if let Ok(ca) = a.compress() {
                    ctx.eval();
                    ctx.count("assertion_swapped_for_compressed_form");
                    match trap::guard(|| {
                        let e2 = e.replace_assertion(a.clone(), ca.clone())?;
                        let e3 = e2.replace_assertion(ca.clone(), ca.uncompress()?)?;
                        Ok::<_, anyhow::Error>((e2, e3))
                    }) {
                        Ok(Ok((e2, e3))) => {
                            let d = bc_components::DigestProvider::digest(&a).into_owned();
                            let at = e2.assertions().into_iter().find(|x| bc_components::DigestProvider::digest(x).into_owned() == d);
                            if gen::root_digest(&e2) != t.digest || !at.map(|x| x.is_compressed()).unwrap_or(false) {
                                ctx.violation("swap-compressed-form/not-installed", "replace_assertion(a, compress(a)) did not put the compressed form in place (or changed the digest)", replay());
                            }
                            if env_bytes(&e3) != env_bytes(&e) {
                                ctx.violation("swap-compressed-form/not-restored", "replacing the compressed assertion by its uncompressed form does not give the original back", replay());
                            }
                        }
                        Ok(Err(err)) => ctx.violation("swap-compressed-form/err", &format!("{}", err), replay()),
                        Err(p) => ctx.violation(&format!("swap-compressed-form/panic/{}", p.signature()), &format!("{:?}", p), replay()),
                    }
                }
            }
        }

        // the compressed form of an assertion that is ALREADY present, added again through the plain entry points:
        // nothing changes (one digest, one element)
        if t.kind == Kind::Node && t.children.len() > 1 {
            let asr = e.assertions();
            let a = asr[rng.below(asr.len())].clone();
            if !a.is_obscured() {
                if let Ok(ca) = a.compress() {
                    ctx.eval();
                    ctx.count("compressed_twin_of_present_assertion_added");
                    match trap::guard(|| (e.add_assertion_envelope(ca.clone()), e.add_optional_assertion_envelope(Some(ca.clone())), e.add_assertion_envelopes(&[ca.clone()]))) {
                        Ok((Ok(x), Ok(y), Ok(z))) => {
                            let eb = env_bytes(&e);
                            if env_bytes(&x) != eb || env_bytes(&y) != eb || env_bytes(&z) != eb {
                                ctx.violation("compressed-twin-added/changed", "adding the compressed form of an assertion that is already present changed the envelope", replay());
                            }
                        }
                        Ok(_) => ctx.violation("compressed-twin-added/err", "adding the compressed form of a present assertion was refused", replay()),
                        Err(p) => ctx.violation(&format!("compressed-twin-added/panic/{}", p.signature()), &format!("{:?}", p), replay()),
                    }
                }
            }
        }
        // hand-over as CBOR between compress and uncompress: the compressed envelope converted BY VALUE while nobody
        // else holds it (and inside a Vec), read back, uncompressed
        if case % 3 == 0 {
            ctx.eval();
            ctx.count("by_value_handover_of_compressed");
            let eb = env_bytes(&e);
            match trap::guard(|| {
                let fresh = Envelope::try_from_cbor_data(eb.clone())?.compress()?;
                let cb: dcbor::CBOR = fresh.into();
                let back = Envelope::try_from(cb)?.uncompress()?;
                let fresh2 = Envelope::try_from_cbor_data(eb.clone())?.compress()?;
                let arr: dcbor::CBOR = vec![fresh2].into();
                let items = arr.try_into_array()?;
                let back2 = Envelope::try_from(items[0].clone())?.uncompress()?;
                Ok::<_, anyhow::Error>((back, back2))
            }) {
                Ok(Ok((b1, b2))) => {
                    if env_bytes(&b1) != eb || env_bytes(&b2) != eb {
                        ctx.violation("handover/not-identical", "compress -> CBOR by value -> decode -> uncompress does not give the original", replay());
                    }
                }
                Ok(Err(err)) => ctx.violation("handover/err", &format!("a compressed envelope handed over as CBOR (converted by value) cannot be read back / uncompressed: {}", err), replay()),
                Err(p) => ctx.violation(&format!("handover/panic/{}", p.signature()), &format!("{:?}", p), replay()),
            }
        }

        // faults on the compressed element
        let exhaustive = ctx.tier == crate::ctx::Tier::Thorough && case % 8 == 0;
        faults(ctx, &e, &c, &mut rng, exhaustive);
        ctx.sample(|| J::obj(vec![("case", J::i(case)), ("envelope", J::s(brief(&t))), ("encoded_len", J::i(env_bytes(&e).len() as u64)), ("compressed_len", J::i(env_bytes(&c).len() as u64))]));
    }
}
