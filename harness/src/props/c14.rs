//! C14 — equivalence and identity comparisons are exact.

use bc_envelope::prelude::*;

use super::common::*;
use crate::ctx::Ctx;
use crate::gen::{self, action, ACTS};
use crate::json::J;
use crate::pos::{tree_of, T};
use crate::spec::Kind;
use crate::trap;

fn class(k: Kind) -> u8 {
    match k {
        Kind::Elided => 1,
        Kind::Encrypted => 2,
        Kind::Compressed => 3,
        _ => 0,
    }
}

/// reference identity: same path set, same (class, digest) at every path
pub fn ref_identical(a: &T, b: &T) -> bool {
    if a.digest != b.digest || class(a.kind) != class(b.kind) {
        return false;
    }
    if class(a.kind) != 0 {
        return true;
    }
    // (two present elements with equal digests are the same element whatever case holds them: a known value n
    // and a leaf #6.40000(n) have the same digest image)
    if a.children.len() != b.children.len() {
        return false;
    }
    a.children.iter().zip(b.children.iter()).all(|(x, y)| ref_identical(x, y))
}

pub fn run(ctx: &mut Ctx) {
    let total = ctx.n(16_000, 200_000);
    for case in ctx.cases(total) {
        ctx.begin_case(case);
        let mut rng = ctx.rng(case);
        let mut cfg = cfg_for(ctx, case);
        cfg.big = false;
        cfg.node_subject = case % 5 == 1;
        let (_m, e) = universe(&mut rng, cfg, case);
        // every 120th case: a deep chain (129..300 levels)
        let e = if case % 120 == 13 {
            ctx.count("deep_chain_inputs");
            let adv = gen::adversarial_models();
            let deep: Vec<&(String, gen::M)> = adv.iter().filter(|(l, _)| l.starts_with("deep-chain")).collect();
            gen::build(&deep[(case / 120) as usize % deep.len()].1, gen::Route::Plain, &mut rng)
        } else {
            e
        };
        let key = fresh_key(&mut rng);
        // every 25th case: an envelope holding an assertion decorated twice without wrapping
        let e = if case % 25 == 6 {
            ctx.count("twice_decorated_inputs");
            gen::twice_decorated(&mut rng, None, &key).0
        } else {
            e
        };
        // very rarely: an element whose own encoding is beyond 16 MiB
        let e = if case % 20011 == 9 {
            ctx.count("huge_elements");
            Envelope::new(format!("holder-{}", case)).add_assertion("blob", Envelope::new(dcbor::ByteString::from(vec![(case % 251) as u8; 17 << 20])))
        } else {
            e
        };
        let t = tree_of(&e);
        ctx.nontrivial(t.shape_hash());
        let flat = t.flatten();
        // family
        let mut fam: Vec<(String, Envelope)> = vec![("orig".into(), e.clone())];
        // single-position variants of present elements under each action
        let n_single = 6.min(flat.len());
        for _ in 0..n_single {
            // (biased towards the deepest element, which a depth-limited walk would miss)
            let (path, target) = if rng.chance(1, 3) { flat.iter().max_by_key(|(p, _)| p.len()).unwrap() } else { &flat[rng.below(flat.len())] };
            for act in ACTS {
                let v = e.elide_removing_set_with_action(&gen::digest_set(&[target.digest]), &action(act, &key));
                ctx.eval();
                ctx.count("single_variants");
                // obscuring a present element: equivalent, not identical
                let eq = e.is_equivalent_to(&v) && v.is_equivalent_to(&e);
                let id = e.is_identical_to(&v) || v.is_identical_to(&e) || e == v;
                if !eq {
                    ctx.violation("variant-not-equivalent", "obscured variant is not reported equivalent", J::obj(vec![("orig", jhex(&e)), ("variant", jhex(&v))]));
                }
                if id {
                    ctx.violation(&format!("variant-identical/{:?}", act), &format!("obscuring the present element at {} ({:?}) gives a result reported identical to the original", crate::pos::path_str(path), target.kind), J::obj(vec![("orig", jhex(&e)), ("variant", jhex(&v))]));
                }
                if fam.len() < 12 {
                    fam.push((format!("{:?}@{}", act, crate::pos::path_str(path)), v));
                }
            }
        }
        // position-level variants: exactly ONE position elided, also when the same digest occurs
        // elsewhere (elide_* works per digest, so these are built by decoding the expected bytes)
        if !t.has_obscured() {
            let dup: Vec<&(crate::pos::Path, &T)> = flat.iter().filter(|(p, n)| !p.is_empty() && flat.iter().filter(|(_, m)| m.digest == n.digest).count() >= 2).collect();
            let mut picks: Vec<crate::pos::Path> = dup.iter().take(3).map(|(p, _)| p.clone()).collect();
            if flat.len() > 1 {
                picks.push(flat[rng.range(1, flat.len() - 1)].0.clone());
            }
            for path in picks {
                let mut t2 = t.clone();
                {
                    let mut cur = &mut t2;
                    for e2 in &path {
                        let idx = cur.edges().iter().position(|x| x == e2).unwrap();
                        cur = &mut cur.children[idx];
                    }
                    *cur = T { kind: Kind::Elided, digest: cur.digest, leaf: None, kv: None, children: vec![] };
                }
                if let Ok(v) = Envelope::try_from_cbor_data(gen::tree_bytes(&t2)) {
                    ctx.count(if dup.iter().any(|(p, _)| **p == path) { "position_variants_of_repeated_digest" } else { "position_variants" });
                    fam.push((format!("pos-elided@{}", crate::pos::path_str(&path)), v));
                }
            }
        }
        // the same law on an envelope that is already partly obscured: obscuring one more present
        // element gives a result that is equivalent but not identical to that envelope
        for _ in 0..3 {
            let b = gen::obscure_random(&e, &mut rng, 2, &key);
            let bt = tree_of(&b);
            let bflat = bt.flatten();
            let cands: Vec<&(crate::pos::Path, &T)> = bflat.iter().filter(|(_, n)| !n.kind.is_obscured()).collect();
            if cands.is_empty() {
                continue;
            }
            let (path, target) = rng.pick(&cands);
            // every occurrence of that digest must be present (un-obscured), else the element counts as
            // already obscured somewhere and the action may legitimately leave that occurrence alone
            if bflat.iter().any(|(_, n)| n.digest == target.digest && n.kind.is_obscured()) {
                continue;
            }
            for act in ACTS {
                let v = b.elide_removing_set_with_action(&gen::digest_set(&[target.digest]), &action(act, &key));
                ctx.eval();
                ctx.count("second_level_variants");
                if !(b.is_equivalent_to(&v) && v.is_equivalent_to(&b)) {
                    ctx.violation("variant-not-equivalent", "obscured variant of a partly obscured envelope is not equivalent", J::obj(vec![("orig", jhex(&b)), ("variant", jhex(&v))]));
                }
                if b.is_identical_to(&v) || v.is_identical_to(&b) || b == v {
                    ctx.violation(&format!("variant-identical/second-level/{:?}", act), &format!("obscuring the present element at {} ({:?}) of a partly obscured envelope gives a result reported identical to it", crate::pos::path_str(path), target.kind), J::obj(vec![("orig", jhex(&b)), ("variant", jhex(&v))]));
                }
                // whole-envelope forms of the partly obscured envelope
                if act == gen::Act::Compress && !b.is_obscured() {
                    if let Ok(c) = b.compress() {
                        ctx.count("second_level_whole_compress");
                        if c.is_identical_to(&b) || !c.is_equivalent_to(&b) {
                            ctx.violation("variant-identical/whole-compress", "compress() of a present (partly obscured) envelope is identical to it or not equivalent", J::obj(vec![("orig", jhex(&b))]));
                        }
                    }
                }
            }
        }
        // a second encryption of the same position (other nonce): same pattern
        if flat.len() > 1 {
            let target = flat[rng.range(1, flat.len() - 1)].1;
            let set = gen::digest_set(&[target.digest]);
            let a = e.elide_removing_set_with_action(&set, &action(gen::Act::Encrypt, &key));
            let b = e.elide_removing_set_with_action(&set, &action(gen::Act::Encrypt, &fresh_key(&mut rng)));
            fam.push(("enc-a".into(), a));
            fam.push(("enc-b".into(), b));
        }
        // double variants
        for _ in 0..2 {
            fam.push(("double".into(), gen::obscure_random(&e, &mut rng, 2, &key)));
        }
        // re-decoded copies
        if let Ok(c) = Envelope::try_from_cbor_data(env_bytes(&e)) {
            fam.push(("decoded".into(), c));
        }
        // the same element held as a known value and as a leaf with the known value's CBOR (#6.40000(n)): equal
        // digests, nothing obscured on either side - identical
        {
            let n = *rng.pick(&[0u64, 1, 4, 23, 24, 255, 256, 65536]);
            let as_kv = Envelope::new(KnownValue::new(n));
            let as_leaf = Envelope::new(dcbor::CBOR::to_tagged_value(40000u64, n));
            ctx.count("known_value_and_leaf_twins");
            fam.push(("twin-kv".into(), e.add_assertion(as_kv.clone(), "twin")));
            fam.push(("twin-leaf".into(), e.add_assertion(as_leaf.clone(), "twin")));
            fam.push(("twin-kv-bare".into(), as_kv));
            fam.push(("twin-leaf-bare".into(), as_leaf));
        }
        // one allocation at several positions: the same Envelope value (clones share it) used as two objects and
        // once more inside a wrapped level - its re-decoded copy (separate allocations) is identical to it
        {
            ctx.count("aliased_members");
            let shared = if e.is_node() || e.is_wrapped() { e.clone() } else { e.add_assertion("k", 1) };
            let inner = Envelope::new("holder").add_assertion("deep", shared.clone()).wrap_envelope();
            fam.push(("aliased".into(), Envelope::new("aliased").add_assertion("one", shared.clone()).add_assertion("two", shared.clone()).add_assertion("three", inner)));
        }
        // short-lived receivers: single-allocation temporaries (wrap_envelope() of a kept envelope allocates exactly
        // one element) are created, compared and dropped in turn, so that a temporary is likely to occupy the
        // storage of the one dropped just before - a verdict must not depend on where the receiver lives
        {
            let set = gen::digest_set(&[flat[flat.len() / 2].1.digest]);
            let va = e.elide_removing_set_with_action(&set, &action(gen::Act::Elide, &key));
            let vb = e.elide_removing_set_with_action(&set, &action(gen::Act::Compress, &key));
            let differ = !crate::props::c14::ref_identical(&tree_of(&va), &tree_of(&vb));
            let (ca, cb) = (va.wrap_envelope(), vb.wrap_envelope());
            let mut bad: Option<String> = None;
            for round in 0..4 {
                ctx.eval();
                ctx.count("short_lived_receivers");
                {
                    let ta = va.wrap_envelope();
                    if !ta.is_identical_to(&ca) {
                        bad = Some(format!("round {}: a fresh wrap of the elided variant is not identical to another wrap of it", round));
                    }
                }
                {
                    let tb = vb.wrap_envelope();
                    if !tb.is_identical_to(&cb) {
                        bad = Some(format!("round {}: a fresh wrap of the compressed variant is not identical to another wrap of it", round));
                    }
                    if differ && tb.is_identical_to(&ca) {
                        bad = Some(format!("round {}: a fresh wrap of the compressed variant is identical to a wrap of the elided variant", round));
                    }
                }
                {
                    let ta = va.wrap_envelope();
                    if differ && (ta == cb) {
                        bad = Some(format!("round {}: a fresh wrap of the elided variant == a wrap of the compressed variant", round));
                    }
                }
            }
            if let Some(b) = bad {
                ctx.violation("identity-depends-on-receiver-storage", &b, J::obj(vec![("a", jhex(&va)), ("b", jhex(&vb))]));
            }
        }
        // identity survives encoding and decoding, for EVERY member of the family
        let k = rng.below(fam.len());
        for i in 0..fam.len() {
            ctx.eval();
            ctx.count("decode_preserves_identity");
            match trap::guard(|| Envelope::try_from_cbor_data(env_bytes(&fam[i].1))) {
                Ok(Ok(c)) => {
                    if !c.is_identical_to(&fam[i].1) || !fam[i].1.is_identical_to(&c) {
                        ctx.violation("decode-breaks-identity", "decode(encode(x)) is not identical to x", jhex(&fam[i].1));
                    }
                    if i == k {
                        fam.push(("decoded-variant".into(), c));
                    }
                }
                Ok(Err(err)) => ctx.violation("decode-breaks-identity/err", &format!("a family member ({}) does not decode from its own encoding: {}", fam[i].0, err), jhex(&fam[i].1)),
                Err(p) => ctx.violation(&format!("decode-breaks-identity/panic/{}", p.signature()), &format!("{:?}", p), jhex(&fam[i].1)),
            }
        }
        // unrelated and near-miss (same shape, one more assertion / other leaf)
        let (_m2, other) = universe(&mut rng, crate::gen::GenCfg::small(), case ^ 0xabcdef);
        fam.push(("unrelated".into(), other));
        fam.push(("near".into(), e.add_assertion("near", case)));
        fam.push(("wrapped".into(), e.wrap_envelope()));
        fam.push(("elided".into(), e.elide()));
        // near-miss digests: placeholders whose digest is a rearrangement / a one-bit neighbour / a half-equal twin
        // of this envelope's digest, bare and as the object of an assertion next to the true placeholder's node -
        // a comparison that looks at part of a digest (a prefix, a 64-bit key, a hash of the words) calls them equal
        {
            let d = *bc_components::DigestProvider::digest(&e).data();
            let rel = crate::adv::related_digests(&d);
            fam.push(("holder-true".into(), Envelope::new("holder").add_assertion("held", e.elide())));
            for _ in 0..2 {
                let (label, rd) = &rel[rng.below(rel.len())];
                ctx.count("near_miss_digest_members");
                ctx.count(&format!("near_miss_{}", label));
                let ph = gen::elided_with_digest(rd);
                fam.push((format!("holder-{}", label), Envelope::new("holder").add_assertion("held", ph.clone())));
                fam.push((format!("bare-{}", label), ph));
            }
        }

        let trees: Vec<T> = fam.iter().map(|(_, x)| tree_of(x)).collect();
        // all ordered pairs
        for i in 0..fam.len() {
            for j in 0..fam.len() {
                ctx.eval();
                let (a, b) = (&fam[i].1, &fam[j].1);
                let want_eq = trees[i].digest == trees[j].digest;
                let want_id = ref_identical(&trees[i], &trees[j]);
                let r = trap::guard(|| (a.is_equivalent_to(b), a.is_identical_to(b), a == b, a != b));
                let (got_eq, got_id, got_pe, got_ne) = match r {
                    Ok(x) => x,
                    Err(p) => {
                        ctx.violation(&format!("compare-panic/{}", p.signature()), &format!("{:?}", p), J::obj(vec![("a", jhex(a)), ("b", jhex(b))]));
                        continue;
                    }
                };
                let replay = || J::obj(vec![("a", jhex(a)), ("b", jhex(b)), ("a_label", J::s(&fam[i].0)), ("b_label", J::s(&fam[j].0))]);
                if got_ne == got_pe {
                    ctx.violation("ne-not-complement-of-eq", &format!("a == b is {} and a != b is {} ({} vs {})", got_pe, got_ne, fam[i].0, fam[j].0), replay());
                }
                if got_eq != want_eq {
                    ctx.violation("equivalence-wrong", &format!("is_equivalent_to={} but digests equal={}", got_eq, want_eq), replay());
                }
                if got_id != want_id {
                    ctx.violation(if got_id { "identity-false-positive" } else { "identity-false-negative" }, &format!("is_identical_to={} reference={} ({} vs {})", got_id, want_id, fam[i].0, fam[j].0), replay());
                }
                if (a.structural_digest() == b.structural_digest() && want_eq) != want_id {
                    ctx.violation("structural-digest-disagrees", "structural_digest equality (among equivalent envelopes) disagrees with the reference identity", replay());
                }
                if got_pe != got_id {
                    ctx.violation("partialeq-differs", "== disagrees with is_identical_to", replay());
                }
                if got_id && !got_eq {
                    ctx.violation("identical-not-equivalent", "identical but not equivalent", replay());
                }
                if i == j && !got_id {
                    ctx.violation("not-reflexive", "x is not identical to itself", replay());
                }
                if want_id {
                    ctx.count("identical_pairs");
                } else if want_eq {
                    ctx.count("equivalent_not_identical_pairs");
                } else {
                    ctx.count("inequivalent_pairs");
                }
            }
        }
        // symmetry is implied by the exact reference on ordered pairs; transitivity on sampled triples
        for _ in 0..20 {
            let (i, j, k) = (rng.below(fam.len()), rng.below(fam.len()), rng.below(fam.len()));
            ctx.eval();
            ctx.count("triples");
            if fam[i].1.is_identical_to(&fam[j].1) && fam[j].1.is_identical_to(&fam[k].1) && !fam[i].1.is_identical_to(&fam[k].1) {
                ctx.violation("not-transitive", "identity is not transitive", J::obj(vec![("a", jhex(&fam[i].1)), ("b", jhex(&fam[j].1)), ("c", jhex(&fam[k].1))]));
            }
        }
        ctx.sample(|| J::obj(vec![("case", J::i(case)), ("envelope", J::s(brief(&t))), ("family", J::Arr(fam.iter().map(|(l, _)| J::s(l)).collect()))]));
    }
}
