//! C05 — serialisation round-trips exactly (CBOR and UR).

use bc_envelope::prelude::*;

use super::common::*;
use crate::ctx::Ctx;
use crate::gen;
use crate::json::J;
use crate::pos::{self, tree_of};
use crate::trap;

pub fn roundtrip(ctx: &mut Ctx, e: &Envelope, what: &str, model_bytes: Option<&[u8]>) {
    ctx.eval();
    let b = env_bytes(e);
    if let Some(mb) = model_bytes {
        ctx.count("model_bytes_compared");
        if mb != b.as_slice() {
            ctx.violation("bytes-vs-model", &format!("{}: encoding differs from model bytes", what), J::obj(vec![("envelope", J::s(hex::encode(&b))), ("model", J::s(hex::encode(mb)))]));
        }
    }
    let t = tree_of(e);
    let replay = || J::obj(vec![("what", J::s(what)), ("envelope_hex", J::s(hex::encode(&b)))]);
    // route 1: bytes -> envelope
    match trap::guard(|| Envelope::try_from_cbor_data(b.clone())) {
        Err(p) => ctx.violation(&format!("decode-panic/{}", p.signature()), &format!("{:?}", p), replay()),
        Ok(Err(err)) => ctx.violation("decode-rejects-own-encoding", &format!("{}: {}", what, err), replay()),
        Ok(Ok(e2)) => {
            let t2 = tree_of(&e2);
            if let Some(d) = pos::diff(&t, &t2) {
                ctx.violation(&format!("decode/tree/{}", diff_class(&d)), &format!("{}: {}", what, d), replay());
            }
            if !e2.is_identical_to(e) || !e.is_identical_to(&e2) || e2 != *e {
                ctx.violation("decode/not-identical", &format!("{}: decoded envelope is not identical", what), replay());
            }
            let b2 = env_bytes(&e2);
            if b2 != b {
                ctx.violation("decode/reencode-differs", &format!("{}: re-encoding differs", what), replay());
            }
        }
    }
    // route 2: through the CBOR value
    ctx.count("via_cbor_value");
    match trap::guard(|| Envelope::try_from(e.tagged_cbor())) {
        Ok(Ok(e3)) => {
            if let Some(d) = pos::diff(&t, &tree_of(&e3)) {
                ctx.violation(&format!("from-cbor/tree/{}", diff_class(&d)), &d, replay());
            }
        }
        Ok(Err(err)) => ctx.violation("from-cbor/err", &format!("{}", err), replay()),
        Err(p) => ctx.violation(&format!("from-cbor/panic/{}", p.signature()), &format!("{:?}", p), replay()),
    }
    // route 3: UR string
    ctx.count("via_ur");
    match trap::guard(|| {
        let s = e.ur_string();
        (s.clone(), Envelope::from_ur_string(s))
    }) {
        Ok((s, Ok(e4))) => {
            if !s.starts_with("ur:envelope/") {
                ctx.violation("ur/type", &format!("ur string does not start with ur:envelope/: {}", &s[..s.len().min(40)]), replay());
            }
            if let Some(d) = pos::diff(&t, &tree_of(&e4)) {
                ctx.violation(&format!("ur/tree/{}", diff_class(&d)), &d, replay());
            }
            if env_bytes(&e4) != b || !e4.is_identical_to(e) {
                ctx.violation("ur/not-identical", "UR round trip not identical", replay());
            }
        }
        Ok((_, Err(err))) => ctx.violation("ur/err", &format!("{}", err), replay()),
        Err(p) => ctx.violation(&format!("ur/panic/{}", p.signature()), &format!("{:?}", p), replay()),
    }
}

pub fn run(ctx: &mut Ctx) {
    bc_envelope::register_tags();
    let total = ctx.n(200_000, 400_000);
    let sweep = special_numbers_len();
    for case in ctx.cases(total + sweep) {
        ctx.begin_case(case);
        let mut rng = ctx.rng(case);
        let mut cfg = cfg_for(ctx, case);
        cfg.node_subject = case % 5 == 0;
        let (m, e) = if case >= total {
            ctx.count("special_number_sweep");
            let m = special_number_model((case - total) as usize);
            let e = gen::build(&m, crate::gen::Route::Plain, &mut rng);
            (m, e)
        } else {
            universe(&mut rng, cfg, case)
        };
        let t = m.tree();
        kind_hist(ctx, &t, "");
        let mb = m.bytes();
        ctx.sample(|| J::obj(vec![("case", J::i(case)), ("envelope", J::s(brief(&t))), ("hex", J::s(hex::encode(&mb[..mb.len().min(80)])))]));
        if t.count() > 1 {
            ctx.nontrivial(t.shape_hash());
        }
        // hostile history: the decoder is first fed malformed variants of the encoding on this very
        // thread (their verdict is C06's business); the valid round trip must be unaffected by them
        for _ in 0..2 {
            let mut bad = mb.clone();
            match rng.below(3) {
                0 => {
                    let n = rng.range(1, bad.len());
                    bad.truncate(n);
                }
                1 => {
                    let i = rng.below(bad.len());
                    bad[i] ^= 1 << rng.below(8);
                }
                _ => {
                    let i = rng.range(2, bad.len());
                    bad.insert(i, 0xff);
                }
            }
            ctx.count("malformed_decodes_interleaved");
            let _ = trap::guard(|| Envelope::try_from_cbor_data(bad).is_ok());
        }
        roundtrip(ctx, &e, "plain", Some(&mb));
        // conversion BY VALUE of an envelope nobody else holds (freshly decoded, reference count one), bare, wrapped,
        // compressed and inside a Vec: the same CBOR as the by-reference conversions
        if case % 4 == 1 {
            ctx.eval();
            ctx.count("by_value_conversions_of_sole_owner");
            let forms: Vec<Vec<u8>> = vec![env_bytes(&e), env_bytes(&e.wrap_envelope()), e.compress().map(|c| env_bytes(&c)).unwrap_or_else(|_| env_bytes(&e)), env_bytes(&e.elide())];
            for fb in forms {
                let r = trap::guard(|| {
                    let fresh = Envelope::try_from_cbor_data(fb.clone())?;
                    let by_value: dcbor::CBOR = fresh.into();
                    let fresh2 = Envelope::try_from_cbor_data(fb.clone())?;
                    let in_vec: dcbor::CBOR = vec![fresh2].into();
                    let fresh3 = Envelope::try_from_cbor_data(fb.clone())?;
                    let by_from = dcbor::CBOR::from(fresh3);
                    Ok::<_, anyhow::Error>((by_value.to_cbor_data(), in_vec.to_cbor_data(), by_from.to_cbor_data()))
                });
                match r {
                    Ok(Ok((a, v, c))) => {
                        let mut want_vec = vec![0x81u8];
                        want_vec.extend_from_slice(&fb);
                        if a != fb || c != fb || v != want_vec {
                            ctx.violation("by-value-conversion-differs", "converting a uniquely owned envelope into CBOR by value gives other bytes than its encoding", J::s(hex::encode(&fb[..fb.len().min(200)])));
                        }
                    }
                    Ok(Err(err)) => ctx.violation("from-cbor/err", &format!("{}", err), J::s(hex::encode(&fb[..fb.len().min(200)]))),
                    Err(p) => ctx.violation(&format!("by-value-conversion/panic/{}", p.signature()), &format!("{:?}", p), J::Null),
                }
            }
        }
        // one assertion whose predicate and object have EQUAL digests but different forms (an element and its elided
        // twin; a known value and the leaf #6.40000(n)), both ways round; and a highly compressible megabyte
        if case % 23 == 3 {
            let kv = Envelope::new(KnownValue::new(case % 200));
            let leaf_twin = Envelope::new(dcbor::CBOR::to_tagged_value(40000u64, case % 200));
            let pairs: Vec<(&str, Envelope, Envelope)> = vec![
                ("elided-predicate", e.elide(), e.clone()),
                ("elided-object", e.clone(), e.elide()),
                ("kv-predicate-leaf-object", kv.clone(), leaf_twin.clone()),
                ("leaf-predicate-kv-object", leaf_twin, kv),
            ];
            for (label, pr, ob) in pairs {
                ctx.eval();
                ctx.count("digest_equal_predicate_and_object");
                let a = Envelope::new_assertion(pr, ob);
                roundtrip(ctx, &a, label, None);
                roundtrip(ctx, &Envelope::new("holder").add_assertion_envelope(a).unwrap(), label, None);
            }
        }
        if case % 6007 == 11 {
            ctx.eval();
            ctx.count("megabyte_of_one_byte_compressed");
            let n = *rng.pick(&[1_000_000usize, 1_048_576, 1_500_000]);
            let big = Envelope::new(dcbor::ByteString::from(vec![(case % 7) as u8; n])).add_assertion("kind", "run");
            if let Ok(c) = big.compress() {
                roundtrip(ctx, &c, "compressed-megabyte-run", None);
                roundtrip(ctx, &Envelope::new("holder").add_assertion("blob", c), "compressed-megabyte-run-as-object", None);
            }
            if let Ok(c) = big.compress_subject() {
                roundtrip(ctx, &c, "compressed-megabyte-run-subject", None);
            }
        }
        // placeholders with foreign digests that are simple functions of a present element's digest (leading half
        // equal, words permuted, one bit apart ...), attached in either order: still one canonical encoding
        if case % 29 == 2 {
            let d = *rng.pick(&t.all_digests());
            for (label, rd) in crate::adv::related_digests(&d) {
                ctx.eval();
                ctx.count("related_digest_placeholders");
                let a = gen::elided_with_digest(&rd);
                let b = gen::elided_with_digest(&d);
                let base = Envelope::new(format!("holder-{}", case));
                let r = trap::guard(|| (base.add_assertion_envelope(a.clone()).and_then(|x| x.add_assertion_envelope(b.clone())), base.add_assertion_envelope(b.clone()).and_then(|x| x.add_assertion_envelope(a.clone())), e.add_assertion_envelope(a.clone())));
                match r {
                    Ok((Ok(x), Ok(y), Ok(z))) => {
                        if env_bytes(&x) != env_bytes(&y) {
                            ctx.violation(&format!("related-digests/order-dependent/{}", label), "two placeholders with related digests give different envelopes depending on the order they were attached in", jhex(&x));
                        }
                        roundtrip(ctx, &x, "related-digest-placeholders", None);
                        roundtrip(ctx, &y, "related-digest-placeholders", None);
                        roundtrip(ctx, &z, "related-digest-placeholder-on-envelope", None);
                    }
                    Ok(_) => ctx.violation(&format!("related-digests/add-err/{}", label), "a placeholder with a foreign digest was refused as an assertion element", J::Null),
                    Err(p) => ctx.violation(&format!("related-digests/panic/{}", p.signature()), &format!("{:?}", p), J::Null),
                }
            }
        }
        // legal but deeply nested envelopes (wrap + assertion chains) must round-trip as well
        if case % 400 == 0 {
            let depth = rng.range(40, 200);
            let mut deep = Envelope::new("core");
            for i in 0..depth {
                deep = if i % 2 == 0 { deep.wrap_envelope() } else { deep.add_assertion("level", i as u64) };
            }
            ctx.count("deep_chain_envelopes");
            roundtrip(ctx, &deep, "deep-chain", None);
        }
        // very wide nodes: 4096 elements and more, array heads 0x99 / 0x9a (built by decoding the model's bytes:
        // assembling them one assertion at a time is quadratic)
        if case % 8000 == 17 {
            let widths = [4094usize, 4095, 4096, 4097, 5000, 65534, 65535, 65536, 70000];
            let w = widths[(case / 8000) as usize % widths.len()];
            let asr: Vec<gen::M> = (0..w).map(|i| gen::M::Assertion(Box::new(gen::M::Leaf(crate::spec::Item::UInt(i as u64))), Box::new(gen::M::Leaf(crate::spec::Item::UInt((i % 7) as u64))))).collect();
            let wide = gen::M::Node(Box::new(gen::M::Leaf(crate::spec::Item::Text("wide".into()))), asr);
            let wb = wide.bytes();
            ctx.count("very_wide_nodes");
            ctx.eval();
            match trap::guard(|| Envelope::try_from_cbor_data(wb.clone())) {
                Ok(Ok(we)) => {
                    roundtrip(ctx, &we, "very-wide", Some(&wb));
                    // ... and inside other cases
                    roundtrip(ctx, &we.wrap_envelope().add_assertion("outer", case), "very-wide-wrapped", None);
                    if let Ok(c) = we.compress() {
                        match c.uncompress() {
                            Ok(u) if env_bytes(&u) == wb => {}
                            _ => ctx.violation("very-wide/uncompress", &format!("a node with {} assertions does not come back from compress/uncompress", w), J::i(w as u64)),
                        }
                    }
                }
                Ok(Err(err)) => ctx.violation("very-wide/decode-rejects-valid-encoding", &format!("a valid node with {} assertions is rejected: {}", w, err), J::i(w as u64)),
                Err(p) => ctx.violation(&format!("very-wide/panic/{}", p.signature()), &format!("{:?}", p), J::i(w as u64)),
            }
        }
        // obscured variants
        let key = fresh_key(&mut rng);
        let rounds = rng.range(1, 4);
        let ob = gen::obscure_random(&e, &mut rng, rounds, &key);
        let to = tree_of(&ob);
        if to.has_obscured() {
            ctx.count("obscured_variants");
            kind_hist(ctx, &to, "obscured_");
            ctx.nontrivial(to.shape_hash());
            roundtrip(ctx, &ob, "obscured", None);
        }
        // merging a redacted copy back: re-adding elided / compressed / encrypted forms of assertions that
        // are already present must change nothing, and the result must still round-trip
        if e.is_node() && case % 3 == 0 {
            let mut merged = e.clone();
            for a in e.assertions() {
                let form = match rng.below(3) {
                    0 => a.elide(),
                    1 => a.compress().unwrap_or(a.clone()),
                    _ => a.encrypt_subject(&key).unwrap_or(a.clone()),
                };
                merged = merged.add_assertion_envelope(form).unwrap_or(merged);
            }
            ctx.count("merged_redacted_copies");
            roundtrip(ctx, &merged, "merged-redacted-copy", Some(&mb));
            // and the other way round: the clear assertions added onto the redacted copy
            let mut redacted = e.clone();
            for a in e.assertions() {
                redacted = redacted.elide_removing_target(&a);
            }
            let mut back = redacted.clone();
            for a in e.assertions() {
                back = back.add_assertion_envelope(a).unwrap_or(back);
            }
            roundtrip(ctx, &back, "clear-onto-redacted-copy", None);
        }
        // whole-envelope forms
        match rng.below(4) {
            0 => roundtrip(ctx, &e.elide(), "elided-whole", None),
            1 => {
                if let Ok(c) = e.compress() {
                    roundtrip(ctx, &c, "compressed-whole", None)
                }
            }
            2 => roundtrip(ctx, &e.wrap_envelope().encrypt_subject(&key).unwrap(), "encrypted-whole", None),
            _ => {
                if let Ok(x) = e.encrypt_subject(&key) {
                    roundtrip(ctx, &x, "encrypted-subject", None)
                }
            }
        }
    }
}
