//! C03 — elision hides exactly the targeted elements and leaves no trace of them.

use std::collections::{HashMap, HashSet};

use bc_components::Digest;
use bc_envelope::prelude::*;

use super::c02::pick_targets;
use super::common::*;
use crate::ctx::Ctx;
use crate::gen::{self, Act, ACTS};
use crate::json::J;
use crate::pos::{path_str, tree_of, Path, T};
use crate::spec::{Kind, D32};
use crate::trap;

/// Expected result by the rule in the property statement.
/// `hidden` positions are replaced by a placeholder (kind = `ph`, same digest, no children).
pub fn expected(t: &T, targets: &HashSet<D32>, revealing: bool, ph: Kind, hidden_paths: &mut Vec<Path>, path: &mut Path) -> T {
    let in_t = targets.contains(&t.digest);
    let hide = if revealing { !in_t } else { in_t };
    if hide {
        hidden_paths.push(path.clone());
        // Elide: nothing but the digest, also where a compressed / encrypted placeholder stood before
        // (its payload is content). Encrypt: only ciphertext (an elided placeholder may stay elided, see
        // diff_relaxed). Compress: a present element becomes Compressed; a placeholder may stay as it is.
        let kind = match (ph, t.kind) {
            (Kind::Elided, _) => Kind::Elided,
            (Kind::Encrypted, _) => Kind::Encrypted,
            (_, k) if k.is_obscured() => k,
            _ => ph,
        };
        return T { kind, digest: t.digest, leaf: None, kv: None, children: vec![] };
    }
    let mut out = t.clone();
    out.children.clear();
    for (e, c) in t.edges().into_iter().zip(t.children.iter()) {
        path.push(e);
        out.children.push(expected(c, targets, revealing, ph, hidden_paths, path));
        path.pop();
    }
    out
}

/// compare allowing a pre-obscured hidden position to be any placeholder kind
fn diff_relaxed(exp: &T, got: &T, orig: &T, path: &mut Path) -> Option<String> {
    if exp.digest != got.digest {
        return Some(format!("{}: digest differs", path_str(path)));
    }
    if exp.kind != got.kind {
        // the only tolerated deviations: an element that was already elided may stay elided under the
        // Encrypt action (no content either way); under Compress a placeholder may stay what it was
        let relaxed = (exp.kind == Kind::Encrypted && got.kind == Kind::Elided && orig.kind == Kind::Elided)
            || (exp.kind.is_obscured() && exp.kind != Kind::Elided && exp.kind != Kind::Encrypted && got.kind.is_obscured() && orig.kind.is_obscured());
        if !relaxed {
            return Some(format!("{}: kind expected {:?} got {:?}", path_str(path), exp.kind, got.kind));
        }
    }
    if !exp.kind.is_obscured() && (exp.leaf != got.leaf || exp.kv != got.kv) {
        return Some(format!("{}: content changed", path_str(path)));
    }
    if exp.children.len() != got.children.len() {
        return Some(format!("{}: arity expected {} got {}", path_str(path), exp.children.len(), got.children.len()));
    }
    for (i, e) in exp.edges().into_iter().enumerate() {
        path.push(e);
        let o = orig.at(&[e]).unwrap_or(orig);
        if let Some(d) = diff_relaxed(&exp.children[i], &got.children[i], o, path) {
            return Some(d);
        }
        path.pop();
    }
    None
}

fn find(hay: &[u8], needle: &[u8]) -> bool {
    needle.len() <= hay.len() && hay.windows(needle.len()).any(|w| w == needle)
}

/// markers (text starting with "MK") occurring in leaf bytes of a tree, with hidden/visible classification
fn markers(t: &T, hidden: &[Path]) -> HashMap<Vec<u8>, (u32, u32)> {
    let mut out: HashMap<Vec<u8>, (u32, u32)> = HashMap::new();
    for (path, n) in t.flatten() {
        if let Some(l) = &n.leaf {
            let is_hidden = hidden.iter().any(|h| path.len() >= h.len() && path[..h.len()] == h[..]);
            let mut i = 0;
            while i + 2 < l.len() {
                if l[i] == b'M' && l[i + 1] == b'K' && l[i + 2].is_ascii_digit() {
                    // full marker shape only: MK<digits>.<digits>.<8 hex digits>
                    let mut j = i + 2;
                    let digits = |j: &mut usize| {
                        let s = *j;
                        while *j < l.len() && l[*j].is_ascii_digit() {
                            *j += 1;
                        }
                        *j > s
                    };
                    let mut ok = digits(&mut j);
                    ok = ok && j < l.len() && l[j] == b'.';
                    j += 1;
                    ok = ok && digits(&mut j);
                    ok = ok && j < l.len() && l[j] == b'.';
                    j += 1;
                    let hs = j;
                    while j < l.len() && j - hs < 8 && l[j].is_ascii_hexdigit() {
                        j += 1;
                    }
                    ok = ok && j - hs == 8;
                    if ok {
                        let e = out.entry(l[i..j].to_vec()).or_insert((0, 0));
                        if is_hidden {
                            e.0 += 1
                        } else {
                            e.1 += 1
                        }
                        i = j;
                        continue;
                    }
                }
                i += 1;
            }
        }
    }
    out
}

pub fn run(ctx: &mut Ctx) {
    let total = ctx.n(150_000, 1_500_000);
    for case in ctx.cases(total) {
        ctx.begin_case(case);
        let mut rng = ctx.rng(case);
        let mut cfg = cfg_for(ctx, case);
        cfg.node_subject = case % 5 == 2;
        let (_m, e0) = universe(&mut rng, cfg, case);
        let key = fresh_key(&mut rng);
        let pre = rng.chance(1, 3);
        let e = if pre { gen::obscure_random(&e0, &mut rng, 2, &key) } else { e0.clone() };
        // every 6th case: extra assertion elements that are placeholders (compressed / elided) with FOREIGN
        // digests which are simple functions of a present element's digest (words permuted, one half equal, one
        // bit apart ...). Membership in the target set is decided on all 32 bytes.
        let mut forced_sets: Vec<Vec<D32>> = Vec::new();
        let e = if case % 6 == 3 {
            let t0 = tree_of(&e);
            let d = *rng.pick(&t0.all_digests());
            let mut x = e.clone();
            let mut rel = crate::adv::related_digests(&d);
            rng.shuffle(&mut rel);
            for (_, rd) in rel.iter().take(3) {
                let ph = if rng.chance(1, 2) {
                    let payload = Envelope::new(format!("foreign-{}", case)).tagged_cbor().to_cbor_data();
                    Envelope::try_from(bc_components::Compressed::from_uncompressed_data(payload, Some(bc_components::Digest::from_data(*rd)))).unwrap()
                } else {
                    gen::elided_with_digest(rd)
                };
                x = x.add_assertion_envelope(ph).unwrap_or(x);
            }
            ctx.count("related_digest_placeholders");
            // remove exactly d / reveal everything the envelope had before (and the new root)
            forced_sets.push(vec![d]);
            let mut all = t0.all_digests();
            all.push(gen::root_digest(&x));
            forced_sets.push(all.clone());
            forced_sets.push(vec![d]);
            forced_sets.push(all);
            x
        } else {
            e
        };
        // very rarely: an element whose own encoding is beyond 16 MiB (a 17 MiB byte string), selected on its own
        let e = if case % 20011 == 7 {
            ctx.count("huge_elements");
            let blob = Envelope::new(dcbor::ByteString::from(vec![(case % 251) as u8; 17 << 20]));
            let x = Envelope::new(format!("holder-{}", case)).add_assertion("blob", blob.clone()).add_assertion("k", 1);
            forced_sets.clear();
            for _ in 0..3 {
                forced_sets.push(vec![gen::root_digest(&blob)]);
                forced_sets.push(vec![gen::root_digest(&x), gen::root_digest(&x.subject())]);
            }
            x
        } else {
            e
        };
        let before = tree_of(&e);
        let has_hidden = before.flatten().iter().any(|(_, n)| matches!(n.kind, Kind::Elided | Kind::Encrypted));
        let pure = !before.has_obscured();
        if before.count() > 1 {
            ctx.nontrivial(before.shape_hash());
        }
        // exhaustive target subsets for small envelopes, sampled otherwise
        let mut uniq: Vec<D32> = before.all_digests();
        uniq.sort();
        uniq.dedup();
        let mut target_sets: Vec<Vec<D32>> = Vec::new();
        if uniq.len() <= 6 {
            ctx.count("exhaustive_subset_envelopes");
            for mask in 0u32..(1 << uniq.len()) {
                target_sets.push((0..uniq.len()).filter(|i| mask >> i & 1 == 1).map(|i| uniq[i]).collect());
            }
        } else {
            for _ in 0..4 {
                target_sets.push(pick_targets(&before, &mut rng));
            }
        }
        target_sets.extend(forced_sets);
        for targets in target_sets {
            let tset: HashSet<D32> = targets.iter().cloned().collect();
            let revealing = rng.chance(1, 2);
            let act = *rng.pick(&ACTS);
            if act == Act::Compress && has_hidden {
                // (since the repair of D5d the Compress action leaves elided / encrypted elements alone)
                ctx.count("compress_action_over_hidden_elements");
            }
            let ph = match act {
                Act::Elide => Kind::Elided,
                Act::Encrypt => Kind::Encrypted,
                Act::Compress => Kind::Compressed,
            };
            ctx.eval();
            ctx.count(&format!("op_{:?}_{}", act, if revealing { "revealing" } else { "removing" }));
            let replay = || {
                J::obj(vec![
                    ("envelope_hex", jhex(&e)),
                    ("targets", J::Arr(targets.iter().map(|d| J::s(hex::encode(d))).collect())),
                    ("revealing", J::Bool(revealing)),
                    ("action", J::s(format!("{:?}", act))),
                ])
            };
            let mut r4 = rng.fork();
            let r = match trap::guard(|| gen::elide_via_any_entry_point(&e, &targets, revealing, act, &key, &mut r4)) {
                Ok(r) => r,
                Err(p) => {
                    ctx.violation(&format!("elide-panic/{:?}/{}", act, p.signature()), &format!("{:?}", p), replay());
                    continue;
                }
            };
            let got = tree_of(&r);
            let mut hidden = Vec::new();
            let exp = expected(&before, &tset, revealing, ph, &mut hidden, &mut vec![]);
            if !hidden.is_empty() {
                ctx.count("cases_with_hidden_positions");
            }
            if let Some(d) = diff_relaxed(&exp, &got, &before, &mut vec![]) {
                let class = d.splitn(2, ": ").nth(1).unwrap_or("?").split_whitespace().next().unwrap_or("?").to_string();
                ctx.violation(&format!("visibility/{:?}/{}/{}", act, if revealing { "revealing" } else { "removing" }, class), &d, replay());
                continue;
            }
            // "only ciphertext": every element this call encrypted has its own fresh nonce -- among themselves,
            // against what the input already held, and against a second run of the same call (a nonce used
            // twice under one key gives away the XOR of two plaintexts, e.g. of two digest-equal forms)
            if act == Act::Encrypt {
                let old: HashSet<([u8; 12], Vec<u8>)> = crate::pos::encrypted_elements(&e).into_iter().collect();
                let fresh = |x: &Envelope| -> Vec<[u8; 12]> { crate::pos::encrypted_elements(x).into_iter().filter(|m| !old.contains(m)).map(|m| m.0).collect() };
                let mut nonces = fresh(&r);
                if !nonces.is_empty() {
                    ctx.count("encrypt_action_nonce_sets");
                    let mut r5 = rng.fork();
                    if let Ok(again) = trap::guard(|| gen::elide_via_any_entry_point(&e, &targets, revealing, act, &key, &mut r5)) {
                        nonces.extend(fresh(&again));
                    }
                    nonces.extend(old.iter().map(|m| m.0));
                    let distinct: HashSet<[u8; 12]> = nonces.iter().cloned().collect();
                    if distinct.len() != nonces.len() {
                        ctx.violation("encrypt-action/nonce-reused", "two elements encrypted under the same key share a nonce (within one result, with the input's encrypted elements, or across two runs of the same call)", replay());
                    }
                }
            }
            let bytes = env_bytes(&r);
            // exact bytes: with the elide action on an envelope without encrypted/compressed parts the
            // result is fully determined: each hidden subtree is nothing but 58 20 || digest
            if act == Act::Elide && pure {
                ctx.count("exact_bytes_compared");
                let want = gen::tree_bytes(&exp);
                if want != bytes {
                    ctx.violation("elide/bytes", "serialised result differs from the expected elided form", replay());
                }
            }
            // residue: hidden-only markers must not appear (elide: nothing; encrypt: only ciphertext)
            // (a compressed element already present in the input legitimately carries content in its
            // payload, so the scan is only meaningful when the input has none)
            let has_compressed_input = before.flatten().iter().any(|(_, n)| n.kind == Kind::Compressed);
            if act != Act::Compress && !hidden.is_empty() && !has_compressed_input {
                for (mk, (h, v)) in markers(&before, &hidden) {
                    if h > 0 && v == 0 {
                        ctx.count("residue_markers_checked");
                        if find(&bytes, &mk) {
                            ctx.violation(&format!("residue/{:?}", act), &format!("hidden-only marker {} is present in the serialised result", String::from_utf8_lossy(&mk)), replay());
                        }
                    }
                }
            }
            if got != before {
                ctx.nontrivial(got.shape_hash() ^ 0x3333);
            }
        }

        // unelide accepts only an envelope with the placeholder's digest
        ctx.eval();
        ctx.count("unelide_checks");
        let ph = e.elide();
        match ph.unelide(e.clone()) {
            Ok(x) => {
                if !x.is_identical_to(&e) {
                    ctx.violation("unelide/not-original", "unelide returned something else", jhex(&e));
                }
            }
            Err(_) => ctx.violation("unelide/rejects-original", "unelide rejected the matching envelope", jhex(&e)),
        }
        // a different envelope (one leaf/assertion changed, or unrelated)
        let other = if rng.chance(1, 2) { e.add_assertion("x-unelide", case) } else { Envelope::new(format!("other-{}", case)) };
        if gen::root_digest(&other) != before.digest && ph.unelide(other).is_ok() {
            ctx.violation("unelide/accepts-mismatch", "unelide accepted an envelope with another digest", jhex(&e));
        }
        // receivers other than a bare elided placeholder: partially obscured, encrypted / compressed
        // placeholders, plain envelopes - still only an envelope with the same digest is accepted
        {
            let wrong = Envelope::new(format!("wrong-{}", case)).add_assertion("w", case);
            let mut receivers: Vec<(&str, Envelope)> = vec![("plain", e.clone()), ("partially-obscured", gen::obscure_random(&e, &mut rng, 2, &key))];
            if let Ok(c) = e.compress() {
                receivers.push(("compressed", c));
            }
            if !e.is_subject_encrypted() && !e.is_subject_elided() {
                receivers.push(("encrypted", e.wrap_envelope().encrypt_subject(&key).unwrap()));
            }
            for (label, r) in receivers {
                ctx.eval();
                ctx.count("unelide_non_placeholder_receivers");
                let rd = gen::root_digest(&r);
                if gen::root_digest(&wrong) != rd {
                    if let Ok(Ok(_)) = trap::guard(|| r.unelide(wrong.clone())) {
                        ctx.violation(&format!("unelide/accepts-mismatch/{}", label), "unelide accepted an envelope with another digest", jhex(&r));
                    }
                }
                let right = if label == "encrypted" { e.wrap_envelope() } else { e.clone() };
                match trap::guard(|| r.unelide(right.clone())) {
                    Ok(Ok(x)) => {
                        if !x.is_identical_to(&right) {
                            ctx.violation(&format!("unelide/not-the-offered-envelope/{}", label), "unelide did not return the matching envelope that was offered", jhex(&r));
                        }
                    }
                    Ok(Err(_)) => ctx.violation(&format!("unelide/rejects-match/{}", label), "unelide rejected an envelope with the same digest", jhex(&r)),
                    Err(p) => ctx.violation(&format!("unelide/panic/{}", p.signature()), &format!("{:?}", p), jhex(&r)),
                }
            }
        }
        // equal prefix, different digest
        let mut d2 = before.digest;
        d2[31] ^= 1;
        let almost = Envelope::new(Digest::from_data(d2)).elide();
        let _ = almost;
        ctx.sample(|| J::obj(vec![("case", J::i(case)), ("envelope", J::s(brief(&before))), ("distinct_digests", J::i(uniq.len() as u64))]));
    }
}
