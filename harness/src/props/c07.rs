//! C07 — assembling the same information in any order yields the identical envelope.

use std::collections::{HashMap, HashSet};

use bc_envelope::prelude::*;

use super::common::*;
use crate::ctx::Ctx;
use crate::gen::{self, Gen, GenCfg, Route, M};
use crate::json::J;
use crate::pos::tree_of;
use crate::rng::Rng;
use crate::spec::Item;
use crate::trap;

fn permutations(n: usize) -> Vec<Vec<usize>> {
    fn rec(cur: &mut Vec<usize>, used: &mut Vec<bool>, n: usize, out: &mut Vec<Vec<usize>>) {
        if cur.len() == n {
            out.push(cur.clone());
            return;
        }
        for i in 0..n {
            if !used[i] {
                used[i] = true;
                cur.push(i);
                rec(cur, used, n, out);
                cur.pop();
                used[i] = false;
            }
        }
    }
    let mut out = Vec::new();
    rec(&mut vec![], &mut vec![false; n], n, &mut out);
    out
}

/// add one assertion element through one of the equivalent public entry points
fn add_variant(e: &Envelope, a: &Envelope, rng: &mut Rng) -> Envelope {
    match rng.below(8) {
        0 => e.add_assertion_envelope(a.clone()).unwrap(),
        1 => e.add_assertion_envelope_salted(a.clone(), false).unwrap(),
        2 => e.add_optional_assertion_envelope(Some(a.clone())).unwrap(),
        3 => e.add_assertion_envelopes(&[a.clone()]).unwrap(),
        4 => e.add_assertions(&[a.clone()]),
        5 => e.add_assertions_salted(&[a.clone()], false),
        6 => {
            // the conditional forms: false is the identity, true adds
            let same = e.add_assertion_envelope_if(false, a.clone()).unwrap();
            assert!(same.is_identical_to(e), "add_assertion_envelope_if(false) changed the envelope");
            e.add_assertion_envelope_if(true, a.clone()).unwrap()
        }
        _ => match (a.as_predicate(), a.as_object()) {
            (Some(p), Some(o)) => match rng.below(4) {
                3 => {
                    let same = e.add_assertion_if(false, p.clone(), o.clone());
                    assert!(same.is_identical_to(e), "add_assertion_if(false) changed the envelope");
                    e.add_assertion_if(true, p, o)
                }
                0 => e.add_assertion(p, o),
                1 => e.add_assertion_salted(p, o, false),
                _ => e.add_optional_assertion(p, Some(o)),
            },
            _ => e.add_assertion_envelope(a.clone()).unwrap(),
        },
    }
}

fn collections(ctx: &mut Ctx, rng: &mut Rng, case: u64) {
    // Equal unordered collections built in different insertion orders into fresh collections
    // (fresh RandomState each) must give equal bytes.
    let n = rng.range(2, 9);
    let mut vals: Vec<u64> = (0..n).map(|_| rng.next_u64() % 1000).collect();
    vals.sort();
    vals.dedup();
    if vals.len() < 2 {
        return;
    }
    let strs: Vec<String> = vals.iter().map(|v| format!("k{}", v)).collect();
    let reps = 16;
    let mut seen: HashMap<&'static str, HashSet<Vec<u8>>> = HashMap::new();
    for _ in 0..reps {
        let mut order: Vec<usize> = (0..vals.len()).collect();
        rng.shuffle(&mut order);
        let hs: HashSet<u64> = order.iter().map(|&i| vals[i]).collect();
        seen.entry("HashSet<u64>").or_default().insert(env_bytes(&Envelope::new(hs)));
        let hss: HashSet<String> = order.iter().map(|&i| strs[i].clone()).collect();
        seen.entry("HashSet<String>").or_default().insert(env_bytes(&Envelope::new(hss)));
        let hm: HashMap<u64, String> = order.iter().map(|&i| (vals[i], strs[i].clone())).collect();
        seen.entry("HashMap<u64,String>").or_default().insert(env_bytes(&Envelope::new(hm)));
        let hm2: HashMap<String, u64> = order.iter().map(|&i| (strs[i].clone(), vals[i])).collect();
        seen.entry("HashMap<String,u64>").or_default().insert(env_bytes(&Envelope::new(hm2)));
        let mut m = dcbor::Map::new();
        for &i in &order {
            m.insert(vals[i], strs[i].clone());
        }
        seen.entry("dcbor::Map").or_default().insert(env_bytes(&Envelope::new(m)));
        let mut s = dcbor::Set::new();
        for &i in &order {
            s.insert(vals[i]);
        }
        seen.entry("dcbor::Set").or_default().insert(env_bytes(&Envelope::new(s)));
        // as object / predicate as well
        let hs2: HashSet<u64> = order.iter().map(|&i| vals[i]).collect();
        seen.entry("HashSet<u64> as object").or_default().insert(env_bytes(&Envelope::new("s").add_assertion("set", Envelope::new(hs2))));
        // Vec keeps its order: equal Vecs equal bytes
        let v: Vec<u64> = vals.clone();
        seen.entry("Vec<u64>").or_default().insert(env_bytes(&Envelope::new(v)));
    }
    for (ty, set) in seen {
        ctx.eval();
        ctx.count(&format!("collection_{}", ty.split('<').next().unwrap().replace("::", "_")));
        if set.len() != 1 {
            ctx.violation(
                &format!("collection-order/{}", ty),
                &format!("{} with {} equal elements built {} times gave {} different encodings", ty, vals.len(), reps, set.len()),
                J::obj(vec![("case", J::i(case)), ("values", J::Arr(vals.iter().map(|v| J::i(*v)).collect())), ("encodings", J::Arr(set.iter().take(3).map(|b| J::s(hex::encode(b))).collect()))]),
            );
        }
    }
}

pub fn run(ctx: &mut Ctx) {
    bc_envelope::register_tags();
    let total = ctx.n(20_000, 1_500_000);
    for case in ctx.cases(total) {
        ctx.begin_case(case);
        let mut rng = ctx.rng(case);
        // wide receivers (more assertions than any small fixed table or linear-scan threshold)
        if case % 50 == 7 {
            // one in twenty of them is very wide (past 1024 / 4096, where a sort or a lookup may switch strategy)
            let very = case % 1000 == 7;
            let w = if very { *rng.pick(&[1023usize, 1025, 2049, 4095, 4097, 4200][..]) } else { *rng.pick(&[63usize, 64, 65, 66, 100, 128, 129, 255, 256, 257, 300][..]) };
            ctx.eval();
            ctx.count("wide_receivers");
            if very {
                ctx.count(&format!("very_wide_receivers_{}", w));
            }
            let subj = Envelope::new(format!("wide-{}", case));
            let items: Vec<Envelope> = (0..w).map(|i| Envelope::new_assertion(i as u64, format!("v{}", (i * 7 + case as usize) % 11))).collect();
            let mut order: Vec<usize> = (0..w).collect();
            rng.shuffle(&mut order);
            let r = trap::guard(|| {
                let mut a = subj.clone();
                // (a very wide node gets all but its last 48 arrivals in one batch: one-by-one is quadratic)
                let single_from = if very { w - 48 } else { 0 };
                if single_from > 0 {
                    let first: Vec<Envelope> = order[..single_from].iter().map(|&i| items[i].clone()).collect();
                    a = a.add_assertion_envelopes(&first).unwrap();
                }
                for &i in &order[single_from..] {
                    a = add_variant(&a, &items[i], &mut rng.fork());
                }
                let rev: Vec<Envelope> = order.iter().rev().map(|&i| items[i].clone()).collect();
                let b = subj.add_assertion_envelopes(&rev).unwrap();
                // re-adding present assertions through every entry point is the identity
                let mut c = a.clone();
                for _ in 0..12 {
                    let x = &items[rng.below(w)];
                    c = add_variant(&c, x, &mut rng.fork());
                }
                let c2 = a.add_assertions(&items[..w.min(70)]);
                // remove one and add it back
                let x = &items[rng.below(w)];
                let d = a.remove_assertion(x.clone()).add_assertion_envelope(x.clone()).unwrap();
                (a, b, c, c2, d)
            });
            match r {
                Ok((a, b, c, c2, d)) => {
                    let ab = env_bytes(&a);
                    let model = M::Node(Box::new(M::Leaf(Item::Text(format!("wide-{}", case)))), (0..w).map(|i| M::Assertion(Box::new(M::Leaf(Item::UInt(i as u64))), Box::new(M::Leaf(Item::Text(format!("v{}", (i * 7 + case as usize) % 11)))))).collect());
                    if ab != model.bytes() || env_bytes(&b) != ab {
                        ctx.violation("wide/order-dependent-bytes", &format!("a node of {} assertions depends on the insertion order / differs from the model", w), J::i(w as u64));
                    }
                    if env_bytes(&c) != ab || env_bytes(&c2) != ab {
                        ctx.violation("wide/repeat-add-changes", &format!("re-adding present assertions changed a node of {} assertions", w), J::i(w as u64));
                    }
                    if env_bytes(&d) != ab {
                        ctx.violation("wide/remove-does-not-restore", &format!("remove + add on a node of {} assertions does not restore it", w), J::i(w as u64));
                    }
                }
                Err(p) => ctx.violation(&format!("wide/panic/{}", p.signature()), &format!("{:?}", p), J::i(w as u64)),
            }
        }
        // the string helper and degenerate replace calls, judged against the plain adders
        if case % 5 == 2 {
            ctx.eval();
            ctx.count("helper_equivalences");
            let recv = Envelope::new(format!("r-{}", case)).add_assertion("k", case);
            let strs = ["", " ", "\t", "\r\n", "  x", "\u{a0}", "\u{3000}", "0", "a", "A longer string with  spaces "];
            for st in strs {
                let r = trap::guard(|| recv.add_nonempty_string_assertion("note", st));
                let want = if st.is_empty() { recv.clone() } else { recv.add_assertion("note", st) };
                match r {
                    Ok(x) => {
                        if env_bytes(&x) != env_bytes(&want) {
                            ctx.violation("helper/add_nonempty_string_assertion", &format!("add_nonempty_string_assertion with {:?} differs from add_assertion (the empty string alone is skipped)", st), jhex(&x));
                        }
                    }
                    Err(p) => ctx.violation(&format!("helper/panic/{}", p.signature()), &format!("{:?}", p), J::s(st)),
                }
            }
            // replace_assertion(old, new) is remove(old) then add(new) - also when old is absent, when old and new
            // are the same assertion, and when new is not an assertion (an error, as for the adders)
            let absent = Envelope::new_assertion("absent", case);
            let present = recv.assertions()[0].clone();
            let not_an_assertion = Envelope::new("just a leaf");
            for (label, old, newa) in [("absent-by-itself", absent.clone(), absent.clone()), ("present-by-itself", present.clone(), present.clone()), ("absent-by-present", absent.clone(), present.clone()), ("present-by-absent", present.clone(), absent.clone()), ("nonassertion-by-itself", not_an_assertion.clone(), not_an_assertion.clone())] {
                let got = trap::guard(|| recv.replace_assertion(old.clone(), newa.clone()));
                let want = recv.remove_assertion(old.clone()).add_assertion_envelope(newa.clone());
                match (got, want) {
                    (Ok(Ok(g)), Ok(w)) => {
                        if env_bytes(&g) != env_bytes(&w) {
                            ctx.violation(&format!("replace-vs-remove-add/{}", label), "replace_assertion(old, new) differs from remove_assertion(old) followed by add_assertion_envelope(new)", jhex(&g));
                        }
                    }
                    (Ok(Err(_)), Err(_)) => {}
                    (Ok(Ok(g)), Err(_)) => ctx.violation(&format!("replace-vs-remove-add/{}/accepted", label), "replace_assertion accepted what the adders refuse", jhex(&g)),
                    (Ok(Err(err)), Ok(_)) => ctx.violation(&format!("replace-vs-remove-add/{}/refused", label), &format!("replace_assertion refused what remove + add accept: {}", err), J::Null),
                    (Err(p), _) => ctx.violation(&format!("replace/panic/{}", p.signature()), &format!("{:?}", p), J::Null),
                }
            }
        }
        // subject + k distinct assertion elements
        let kmax = if case % 10 == 0 { 5 } else { 4 };
        let kmax = if ctx.tier == crate::ctx::Tier::Thorough { 5 } else { kmax };
        let k = rng.range(1, kmax);
        let (subject_m, asr_m): (M, Vec<M>) = {
            let mut g = Gen::new(&mut rng, GenCfg::small(), case);
            let s = match g.envelope(1) {
                M::Node(s, _) => *s,
                other => other,
            };
            let a: Vec<M> = (0..k).map(|_| g.assertion_element(1)).collect();
            (s, a)
        };
        // now and then the assertion set is one whose digests share their first 1..4 bytes
        let (subject_m, asr_m) = if case % 16 == 5 {
            let adv = gen::adversarial_models();
            match &adv[(case / 16) as usize % 8].1 {
                M::Node(s, a) => {
                    ctx.count("digest_prefix_collision_sets");
                    ((**s).clone(), a.iter().take(kmax).cloned().collect())
                }
                _ => (subject_m, asr_m),
            }
        } else {
            (subject_m, asr_m)
        };
        // now and then one element is an assertion decorated twice without wrapping (only decoding builds it)
        let (subject_m, mut asr_m) = (subject_m, asr_m);
        if case % 9 == 4 {
            ctx.count("twice_decorated_assertion_elements");
            let bare = M::Assertion(Box::new(M::Leaf(Item::Text("knows".into()))), Box::new(M::Leaf(Item::UInt(case))));
            let once = M::Node(Box::new(bare), vec![M::Assertion(Box::new(M::Known(rng.below(20) as u64)), Box::new(M::Leaf(Item::UInt(1))))]);
            let twice = M::Node(Box::new(once), vec![M::Assertion(Box::new(M::Leaf(Item::Text("note".into()))), Box::new(M::Leaf(Item::UInt(2))))]);
            let at = rng.below(asr_m.len() + 1);
            asr_m.insert(at, twice);
            asr_m.truncate(kmax.max(2));
        }
        // assertions RELATED to other parts of the same envelope (different digests, so all of them belong to the
        // set): the bare core of a decorated assertion next to the decorated one; an assertion that is the subject
        if case % 7 == 3 {
            ctx.count("related_assertion_elements");
            let bare = M::Assertion(Box::new(M::Leaf(Item::Text("knows".into()))), Box::new(M::Leaf(Item::UInt(case + 1))));
            let salted = M::Node(Box::new(bare.clone()), vec![M::Assertion(Box::new(M::Known(15)), Box::new(M::Leaf(Item::Bytes(rng.bytes(8)))))]);
            asr_m.truncate(kmax.max(3) - 2);
            let at = rng.below(asr_m.len() + 1);
            asr_m.insert(at, salted);
            let at = rng.below(asr_m.len() + 1);
            asr_m.insert(at, bare);
        }
        let (subject_m, asr_m) = if case % 7 == 5 && !asr_m.is_empty() {
            // the subject is itself an assertion that also occurs among the assertions
            ctx.count("subject_occurs_among_assertions");
            let a = asr_m[0].clone();
            if matches!(a, M::Assertion(..)) { (a, asr_m) } else { (subject_m, asr_m) }
        } else {
            (subject_m, asr_m)
        };
        // distinct assertions only: one digest must not appear in two different forms (plain and
        // obscured), otherwise "the same set" is ill-defined - whichever form is added first stays
        let asr_m: Vec<M> = {
            let mut seen: HashSet<[u8; 32]> = HashSet::new();
            asr_m.into_iter().filter(|a| seen.insert(a.tree().digest)).collect()
        };
        let k = asr_m.len();
        let subject = gen::build(&subject_m, Route::Plain, &mut rng);
        let key0 = fresh_key(&mut rng);
        let mut any_obscured = false;
        let asr: Vec<Envelope> = asr_m
            .iter()
            .map(|a| {
                let e = gen::build(a, if a.has_node_subject_node() { Route::Decode } else { Route::Plain }, &mut rng);
                // an assertion element may itself be obscured (same digest, legitimate assertion element)
                match rng.below(10) {
                    0 => {
                        any_obscured = true;
                        e.elide()
                    }
                    1 => {
                        any_obscured = true;
                        e.compress().unwrap()
                    }
                    2 => {
                        any_obscured = true;
                        e.encrypt_subject(&key0).unwrap()
                    }
                    _ => e,
                }
            })
            .collect();
        if any_obscured {
            ctx.count("cases_with_obscured_assertion_elements");
        }
        let model = M::Node(Box::new(subject_m.clone()), asr_m.clone());
        let want_tree = model.tree();
        // expected bytes: the model's canonical bytes; with obscured elements (whose bytes the model
        // cannot predict) the reference is the first assembly, which must itself match the model's digests
        let want = if !any_obscured {
            model.bytes()
        } else {
            let mut e = subject.clone();
            for a in &asr {
                e = e.add_assertion_envelope(a.clone()).unwrap();
            }
            let t = tree_of(&e);
            if t.digest != want_tree.digest {
                ctx.violation("obscured-elements/digest", "node assembled from obscured assertion elements has another digest than the model", J::Null);
            }
            check_spec(ctx, &e, "assembled from obscured elements");
            env_bytes(&e)
        };
        ctx.nontrivial(want_tree.shape_hash());
        let subject_bytes = env_bytes(&subject);
        let replay = |extra: &str| J::obj(vec![("subject_hex", J::s(hex::encode(&subject_bytes))), ("assertions_hex", J::Arr(asr.iter().map(jhex).collect())), ("note", J::s(extra))]);

        // all k! insertion orders (exhaustive), each also with a repeated insertion
        let perms = permutations(k);
        ctx.count(&format!("exhaustive_permutations_k{}", k));
        for perm in &perms {
            ctx.eval();
            let mut r3 = rng.fork();
            let r = trap::guard(|| {
                let mut e = subject.clone();
                match r3.below(4) {
                    // whole batch at once, with repetitions inside the batch
                    0 | 1 => {
                        let mut batch: Vec<Envelope> = perm.iter().map(|&i| asr[i].clone()).collect();
                        let extra = r3.below(3);
                        for _ in 0..extra {
                            let x = batch[r3.below(batch.len())].clone();
                            let pos = r3.below(batch.len() + 1);
                            batch.insert(pos, x);
                        }
                        e = match r3.below(3) {
                            0 => e.add_assertion_envelopes(&batch).unwrap(),
                            1 => e.add_assertions(&batch),
                            _ => e.add_assertions_salted(&batch, false),
                        };
                    }
                    _ => {
                        for &i in perm {
                            e = add_variant(&e, &asr[i], &mut r3);
                            if r3.chance(1, 5) {
                                e = add_variant(&e, &asr[i], &mut r3);
                            }
                        }
                    }
                }
                e
            });
            let e = match r {
                Ok(e) => e,
                Err(p) => {
                    ctx.violation(&format!("panic/{}", p.signature()), &format!("{:?}", p), replay("permutation"));
                    continue;
                }
            };
            let b = env_bytes(&e);
            if b != want {
                ctx.violation("order-dependent-bytes", &format!("insertion order {:?} gives bytes different from the model", perm), replay(&format!("{:?}", perm)));
            }
            // repetition: re-adding each assertion is the identity
            let mut e2 = e.clone();
            for &i in perm {
                e2 = e2.add_assertion_envelope(asr[i].clone()).unwrap();
            }
            if env_bytes(&e2) != b {
                ctx.violation("repeat-add-changes", "adding assertions already present changed the envelope", replay(&format!("{:?}", perm)));
            }
        }
        ctx.count_n("permutations_checked", perms.len() as u64);

        // a route through replace_subject: part of the assertions sit on the subject already, the rest
        // (possibly overlapping) on a stand-in; replacing the stand-in's subject merges them
        if k >= 2 && !any_obscured {
            ctx.eval();
            ctx.count("replace_subject_merge_routes");
            let split = rng.range(1, k - 1);
            let mut on_subject = subject.clone();
            for a in &asr[..split] {
                on_subject = on_subject.add_assertion_envelope(a.clone()).unwrap();
            }
            let overlap = rng.chance(1, 2);
            let mut rest = Envelope::new("stand-in-subject");
            for a in &asr[if overlap { split - 1 } else { split }..] {
                rest = rest.add_assertion_envelope(a.clone()).unwrap();
            }
            match trap::guard(|| rest.replace_subject(on_subject.clone())) {
                Ok(merged) => {
                    if env_bytes(&merged) != want {
                        ctx.violation("replace-subject-merge-differs", "assertions split between the new subject and the receiver of replace_subject do not give the same envelope as adding them all to the subject", replay("replace_subject merge"));
                    }
                }
                Err(p) => ctx.violation(&format!("panic/replace_subject/{}", p.signature()), &format!("{:?}", p), replay("replace_subject merge")),
            }
        }
        // add / remove laws along one random order
        let mut order: Vec<usize> = (0..k).collect();
        rng.shuffle(&mut order);
        let mut e = subject.clone();
        for &i in &order {
            ctx.eval();
            let prev = env_bytes(&e);
            let with = e.add_assertion_envelope(asr[i].clone()).unwrap();
            if env_bytes(&e) != prev {
                ctx.violation("receiver-mutated/add", "add changed its receiver", replay("add"));
            }
            let already = tree_of(&e).children.iter().skip(1).any(|c| c.digest == gen::root_digest(&asr[i]));
            if !already {
                let back = with.remove_assertion(asr[i].clone());
                ctx.count("remove_restores_checked");
                if env_bytes(&back) != prev {
                    ctx.violation("remove-does-not-restore", "removing the assertion just added did not restore the previous envelope", replay("remove"));
                }
                // elements are identified by DIGEST: removing by any other form of the same assertion (its elided
                // twin, its compressed form) removes it just the same
                for (label, form) in [("elided", asr[i].elide()), ("compressed", asr[i].compress().unwrap_or_else(|_| asr[i].elide()))] {
                    ctx.count("remove_by_other_form_checked");
                    match trap::guard(|| with.remove_assertion(form.clone())) {
                        Ok(b2) => {
                            if env_bytes(&b2) != prev {
                                ctx.violation(&format!("remove-by-other-form/{}", label), "removing an assertion by a digest-equal form of it (not the stored form) did not remove it", replay("remove by twin"));
                            }
                        }
                        Err(p) => ctx.violation(&format!("panic/{}", p.signature()), &format!("{:?}", p), replay("remove by twin")),
                    }
                }
            }
            // replacing an assertion by one that is already present: the set loses the first and is
            // otherwise unchanged (the node never holds one digest twice)
            if k >= 2 && !any_obscured && rng.chance(1, 2) {
                let j = order[rng.below(order.len())];
                let present_now: Vec<usize> = (0..k).filter(|x| tree_of(&with).children.iter().skip(1).any(|c| c.digest == gen::root_digest(&asr[*x]))).collect();
                if j != i && present_now.contains(&j) {
                    ctx.count("replace_by_present_checked");
                    let got = with.replace_assertion(asr[i].clone(), asr[j].clone()).unwrap();
                    let rest: Vec<M> = present_now.iter().filter(|x| **x != i).map(|x| asr_m[*x].clone()).collect();
                    let want2 = M::Node(Box::new(subject_m.clone()), rest).bytes();
                    if env_bytes(&got) != want2 {
                        ctx.violation("replace-by-present-differs", "replace_assertion(a, b) with b already present does not give the envelope without a", replay("replace by present"));
                    }
                }
            }
            // replacing an assertion by itself, and by another one and back, restores the envelope
            if rng.chance(1, 3) {
                ctx.count("replace_checked");
                let same = with.replace_assertion(asr[i].clone(), asr[i].clone()).unwrap();
                let other = Envelope::new_assertion("c07-temp", case);
                let there = with.replace_assertion(asr[i].clone(), other.clone()).unwrap();
                let back = there.replace_assertion(other, asr[i].clone()).unwrap();
                if env_bytes(&same) != env_bytes(&with) || env_bytes(&back) != env_bytes(&with) {
                    ctx.violation("replace-does-not-restore", "replace_assertion(a, a) or replace there-and-back changed the envelope", replay("replace"));
                }
            }
            e = with;
        }
        // removing everything yields the bare subject
        let mut e3 = e.clone();
        rng.shuffle(&mut order);
        for &i in &order {
            e3 = e3.remove_assertion(asr[i].clone());
        }
        ctx.eval();
        ctx.count("remove_all_checked");
        if env_bytes(&e3) != subject_bytes {
            ctx.violation("remove-last-not-bare-subject", "removing all assertions did not give the bare subject", replay("remove all"));
        }
        // unwrap(wrap(E)) is E
        ctx.eval();
        ctx.count("wrap_unwrap_checked");
        match e.wrap_envelope().unwrap_envelope() {
            Ok(u) => {
                if env_bytes(&u) != env_bytes(&e) || !u.is_identical_to(&e) {
                    ctx.violation("unwrap-wrap", "unwrap(wrap(E)) is not E", replay("wrap"));
                }
            }
            Err(err) => ctx.violation("unwrap-wrap-err", &format!("{}", err), replay("wrap")),
        }
        // no operation alters its receiver (op catalogue subset on `e`)
        let before = env_bytes(&e);
        let key = fresh_key(&mut rng);
        let _ = trap::guard(|| {
            let _ = e.wrap_envelope();
            let _ = e.elide();
            let _ = e.compress();
            let _ = e.compress_subject();
            let _ = e.encrypt_subject(&key);
            let _ = e.add_salt();
            let _ = e.replace_subject(Envelope::new("z"));
            let _ = e.remove_assertion(asr[0].clone());
            let _ = e.add_type("T");
            let _ = e.elide_removing_target(&asr[0]);
            let _ = e.elide_revealing_target(&asr[0]);
        });
        ctx.eval();
        ctx.count("receiver_unchanged_checked");
        if env_bytes(&e) != before {
            ctx.violation("receiver-mutated/catalogue", "an operation changed its receiver", replay("catalogue"));
        }
        // convenience constructors / adders agree with the plain ones
        {
            ctx.eval();
            ctx.count("convenience_constructors_checked");
            let txt = format!("v{}", case);
            let ok = env_bytes(&Envelope::new_or_null(Some(txt.clone()))) == env_bytes(&Envelope::new(txt.clone()))
                && env_bytes(&Envelope::new_or_null(None::<String>)) == env_bytes(&Envelope::null())
                && Envelope::new_or_none(None::<String>).is_none()
                && Envelope::new_or_none(Some(txt.clone())).map(|x| env_bytes(&x)) == Some(env_bytes(&Envelope::new(txt.clone())))
                && env_bytes(&e.add_nonempty_string_assertion("note", "")) == env_bytes(&e)
                && env_bytes(&e.add_nonempty_string_assertion("note", txt.as_str())) == env_bytes(&e.add_assertion("note", txt.as_str()))
                && env_bytes(&e.add_optional_assertion("opt", None::<String>)) == env_bytes(&e)
                && env_bytes(&e.add_optional_assertion_envelope(None).unwrap()) == env_bytes(&e)
                && env_bytes(&Envelope::r#true()) == env_bytes(&Envelope::new(true))
                && env_bytes(&Envelope::r#false()) == env_bytes(&Envelope::new(false));
            if !ok {
                ctx.violation("convenience-constructor-differs", "a convenience constructor / conditional adder disagrees with the plain form", replay("convenience"));
            }
        }
        // operations are functions of their receiver: the same receiver gives the same result whatever
        // was computed before it - in particular right after the same operation on a digest-EQUAL but
        // structurally different form (full / partly obscured / elided / compressed)
        {
            let k2 = fresh_key(&mut rng);
            let mut forms: Vec<Envelope> = vec![e.clone(), gen::obscure_random(&e, &mut rng, 2, &k2), e.elide()];
            if let Ok(c) = e.compress() {
                forms.push(c);
            }
            if let Ok(cs) = e.compress_subject() {
                forms.push(cs);
            }
            let probe_pred = asr[0].subject().as_predicate().unwrap_or_else(|| Envelope::new("p"));
            let tgt = gen::digest_set(&[gen::root_digest(&asr[0])]);
            let observe = |x: &Envelope| -> Vec<String> {
                vec![
                    hex::encode(env_bytes(x)),
                    hex::encode(gen::root_digest(x)),
                    hex::encode(x.structural_digest().data()),
                    x.elements_count().to_string(),
                    x.format_flat(),
                    x.tree_format(false),
                    x.compress().map(|c| hex::encode(env_bytes(&c))).unwrap_or_else(|e| format!("err {}", e)),
                    x.compress_subject().map(|c| hex::encode(env_bytes(&c))).unwrap_or_else(|e| format!("err {}", e)),
                    x.uncompress().map(|c| hex::encode(env_bytes(&c))).unwrap_or_else(|e| format!("err {}", e)),
                    hex::encode(env_bytes(&x.elide_removing_set(&tgt))),
                    hex::encode(env_bytes(&x.elide_revealing_set(&tgt))),
                    hex::encode(env_bytes(&x.wrap_envelope())),
                    x.assertions_with_predicate(probe_pred.clone()).len().to_string(),
                    x.proof_contains_set(&tgt).map(|p| hex::encode(env_bytes(&p))).unwrap_or_default(),
                    x.digests(2).len().to_string(),
                    format!("{:?}", x.types().len()),
                    x.ur_string(),
                ]
            };
            match trap::guard(|| {
                let first: Vec<Vec<String>> = forms.iter().map(|f| observe(f)).collect();
                let second: Vec<Vec<String>> = forms.iter().rev().map(|f| observe(f)).collect::<Vec<_>>().into_iter().rev().collect();
                (first, second)
            }) {
                Ok((first, second)) => {
                    ctx.eval();
                    ctx.count("purity_families");
                    for (i, (a, b)) in first.iter().zip(second.iter()).enumerate() {
                        if let Some(j) = a.iter().zip(b.iter()).position(|(x, y)| x != y) {
                            let names = ["bytes", "digest", "structural_digest", "elements_count", "format_flat", "tree_format", "compress", "compress_subject", "uncompress", "elide_removing_set", "elide_revealing_set", "wrap_envelope", "assertions_with_predicate", "proof_contains_set", "digests", "types", "ur_string"];
                            ctx.violation(&format!("result-depends-on-history/{}", names[j]), &format!("{} of the same envelope (form #{}) gave two different results depending on which digest-equal form was processed before it", names[j], i), J::obj(vec![("forms", J::Arr(forms.iter().map(jhex).collect()))]));
                            break;
                        }
                    }
                }
                // formatting a hostile date leaf panics inside dcbor (known finding D14, owned by C16)
                Err(p) if p.signature().contains("dcbor-0.17.1/src/date.rs") => ctx.count("purity_skipped_dcbor_date_panic"),
                Err(p) => ctx.violation(&format!("panic/purity/{}", p.signature()), &format!("{:?}", p), replay("purity")),
            }
        }
        // equal values -> equal bytes: unordered collections
        collections(ctx, &mut rng, case);
        ctx.sample(|| J::obj(vec![("case", J::i(case)), ("k", J::i(k as u64)), ("model", J::s(brief(&want_tree))), ("permutations", J::i(perms.len() as u64))]));
    }
}
