//! vmon — runtime monitors for bc-envelope (see /verif/DESIGN.md).
pub mod adv;
pub mod ctx;
pub mod gen;
pub mod json;
pub mod pos;
pub mod rng;
pub mod spec;
pub mod trap;
pub mod props;
