//! S1 — independent specification oracle.
//!
//! A CBOR item model (`Item`), an own deterministic encoder, an own strict dCBOR
//! parser over bytes, and the Gordian Envelope grammar + digest rules written from
//! draft-mcnally-envelope §3–§4. Shares no code with bc-envelope, dcbor or
//! bc-components (SHA-256 comes from the `sha2` crate).

use sha2::{Digest as _, Sha256};
use unicode_normalization::{is_nfc, UnicodeNormalization};

pub type D32 = [u8; 32];

pub fn sha256(data: &[u8]) -> D32 {
    let mut h = Sha256::new();
    h.update(data);
    h.finalize().into()
}

pub fn sha256_cat(parts: &[D32]) -> D32 {
    let mut h = Sha256::new();
    for p in parts {
        h.update(p);
    }
    h.finalize().into()
}

pub const TAG_ENVELOPE: u64 = 200;
pub const TAG_LEAF: u64 = 201;
pub const TAG_ENCODED_CBOR: u64 = 24;
pub const TAG_KNOWN_VALUE: u64 = 40000;
pub const TAG_DIGEST: u64 = 40001;
pub const TAG_ENCRYPTED: u64 = 40002;
pub const TAG_COMPRESSED: u64 = 40003;

// ---------------------------------------------------------------------------------------------
// Item model + encoder
// ---------------------------------------------------------------------------------------------

#[derive(Clone, Debug)]
pub enum Item {
    UInt(u64),
    /// value is -1 - n
    NInt(u64),
    Bytes(Vec<u8>),
    Text(String),
    Array(Vec<Item>),
    /// entries in any order; the encoder sorts them
    Map(Vec<(Item, Item)>),
    Tag(u64, Box<Item>),
    /// 20 false, 21 true, 22 null
    Simple(u8),
    Float(f64),
}

impl PartialEq for Item {
    fn eq(&self, other: &Self) -> bool {
        encode(self) == encode(other)
    }
}

fn head(major: u8, n: u64, out: &mut Vec<u8>) {
    let m = major << 5;
    if n < 24 {
        out.push(m | n as u8);
    } else if n <= 0xff {
        out.push(m | 24);
        out.push(n as u8);
    } else if n <= 0xffff {
        out.push(m | 25);
        out.extend_from_slice(&(n as u16).to_be_bytes());
    } else if n <= 0xffff_ffff {
        out.push(m | 26);
        out.extend_from_slice(&(n as u32).to_be_bytes());
    } else {
        out.push(m | 27);
        out.extend_from_slice(&n.to_be_bytes());
    }
}

/// head with an argument one size wider than necessary (non-canonical)
fn long_head(major: u8, n: u64, out: &mut Vec<u8>) {
    let m = major << 5;
    if n < 24 {
        out.push(m | 24);
        out.push(n as u8);
    } else if n <= 0xff {
        out.push(m | 25);
        out.extend_from_slice(&(n as u16).to_be_bytes());
    } else if n <= 0xffff {
        out.push(m | 26);
        out.extend_from_slice(&(n as u32).to_be_bytes());
    } else {
        out.push(m | 27);
        out.extend_from_slice(&n.to_be_bytes());
    }
}

/// dCBOR numeric reduction + shortest float form.
pub fn encode_float(f: f64, out: &mut Vec<u8>) {
    if f.is_nan() {
        out.extend_from_slice(&[0xf9, 0x7e, 0x00]);
        return;
    }
    if f.is_finite() && f.fract() == 0.0 {
        // integral: reduce to integer when it fits the CBOR integer range
        if f >= 0.0 && f < 18446744073709551616.0 {
            head(0, f as u64, out);
            return;
        }
        // (dCBOR: integers are the range -2^63 ..= 2^64-1; a value below stays a float)
        if f < 0.0 && f >= -9223372036854775808.0 {
            // -1 - n = f  => n = |f| - 1, computed exactly in integers
            let m = (-f) as u128;
            head(1, (m - 1) as u64, out);
            return;
        }
    }
    let h = half::f16::from_f64(f);
    if h.to_f64() == f {
        out.push(0xf9);
        out.extend_from_slice(&h.to_bits().to_be_bytes());
        return;
    }
    let s = f as f32;
    if (s as f64) == f {
        out.push(0xfa);
        out.extend_from_slice(&s.to_bits().to_be_bytes());
        return;
    }
    out.push(0xfb);
    out.extend_from_slice(&f.to_bits().to_be_bytes());
}

pub fn encode_into(item: &Item, out: &mut Vec<u8>) {
    match item {
        Item::UInt(n) => head(0, *n, out),
        Item::NInt(n) => head(1, *n, out),
        Item::Bytes(b) => {
            head(2, b.len() as u64, out);
            out.extend_from_slice(b);
        }
        Item::Text(s) => {
            let n: String = s.nfc().collect();
            head(3, n.len() as u64, out);
            out.extend_from_slice(n.as_bytes());
        }
        Item::Array(xs) => {
            head(4, xs.len() as u64, out);
            for x in xs {
                encode_into(x, out);
            }
        }
        Item::Map(es) => {
            let mut enc: Vec<(Vec<u8>, Vec<u8>)> = es.iter().map(|(k, v)| (encode(k), encode(v))).collect();
            enc.sort_by(|a, b| a.0.cmp(&b.0));
            enc.dedup_by(|a, b| a.0 == b.0);
            head(5, enc.len() as u64, out);
            for (k, v) in enc {
                out.extend_from_slice(&k);
                out.extend_from_slice(&v);
            }
        }
        Item::Tag(t, x) => {
            head(6, *t, out);
            encode_into(x, out);
        }
        Item::Simple(v) => out.push(0xe0 | *v),
        Item::Float(f) => encode_float(*f, out),
    }
}

pub fn encode(item: &Item) -> Vec<u8> {
    let mut out = Vec::new();
    encode_into(item, &mut out);
    out
}

/// Non-canonical encodings used by the C06 workload: encode `item`, applying `quirk` at the
/// `target`-th node in pre-order (if it is applicable there). Returns whether it was applied.
#[derive(Clone, Copy, Debug, PartialEq, Eq)]
pub enum Quirk {
    LongHead,
    Indefinite,
    MapReversed,
    MapDupKey,
    FloatWide,
    IntAsFloat,
    IntAsFloatSameLen,
    IntAsShortFloat,
    TextNfd,
    NanPayload,
    NegZero,
}

pub const ALL_QUIRKS: [Quirk; 11] = [
    Quirk::LongHead,
    Quirk::Indefinite,
    Quirk::MapReversed,
    Quirk::MapDupKey,
    Quirk::FloatWide,
    Quirk::IntAsFloat,
    Quirk::IntAsFloatSameLen,
    Quirk::IntAsShortFloat,
    Quirk::TextNfd,
    Quirk::NanPayload,
    Quirk::NegZero,
];

fn short_float(f: f64, out: &mut Vec<u8>) {
    let h = half::f16::from_f64(f);
    if h.to_f64() == f {
        out.push(0xf9);
        out.extend_from_slice(&h.to_bits().to_be_bytes());
    } else if ((f as f32) as f64) == f {
        out.push(0xfa);
        out.extend_from_slice(&(f as f32).to_bits().to_be_bytes());
    } else {
        out.push(0xfb);
        out.extend_from_slice(&f.to_bits().to_be_bytes());
    }
}

pub fn encode_quirk(item: &Item, target: usize, quirk: Quirk) -> (Vec<u8>, bool) {
    let mut out = Vec::new();
    let mut counter = 0usize;
    let mut applied = false;
    enc_q(item, &mut counter, target, quirk, &mut applied, &mut out);
    (out, applied)
}

pub fn count_nodes(item: &Item) -> usize {
    match item {
        Item::Array(xs) => 1 + xs.iter().map(count_nodes).sum::<usize>(),
        Item::Map(es) => 1 + es.iter().map(|(k, v)| count_nodes(k) + count_nodes(v)).sum::<usize>(),
        Item::Tag(_, x) => 1 + count_nodes(x),
        _ => 1,
    }
}

fn enc_q(item: &Item, counter: &mut usize, target: usize, quirk: Quirk, applied: &mut bool, out: &mut Vec<u8>) {
    let here = *counter == target;
    *counter += 1;
    let hd = |major: u8, n: u64, out: &mut Vec<u8>, applied: &mut bool| {
        if here && quirk == Quirk::LongHead && n <= 0xffff_ffff {
            long_head(major, n, out);
            *applied = true;
        } else {
            head(major, n, out);
        }
    };
    match item {
        Item::UInt(n) => {
            if here && quirk == Quirk::IntAsFloatSameLen {
                // a float encoding that is exactly as long as the canonical integer encoding
                let f = *n as f64;
                if *n >= (1u64 << 31) && *n < (1u64 << 32) && ((f as f32) as f64) == f && (f as u64) == *n {
                    out.push(0xfa);
                    out.extend_from_slice(&(f as f32).to_bits().to_be_bytes());
                    *applied = true;
                    return;
                }
                if *n >= (1u64 << 32) && (f as u64) == *n && (f as u128) == (*n as u128) {
                    out.push(0xfb);
                    out.extend_from_slice(&f.to_bits().to_be_bytes());
                    *applied = true;
                    return;
                }
                hd(0, *n, out, applied)
            } else if here && quirk == Quirk::IntAsShortFloat && ((*n as f64) as u128) == *n as u128 {
                // the integer written as the SHORTEST float that holds it exactly (half / single / double)
                short_float(*n as f64, out);
                *applied = true;
            } else if here && quirk == Quirk::IntAsFloat && *n < (1u64 << 53) {
                let f = *n as f64;
                out.push(0xfb);
                out.extend_from_slice(&f.to_bits().to_be_bytes());
                *applied = true;
            } else {
                hd(0, *n, out, applied)
            }
        }
        Item::NInt(n) => {
            let v = -1i128 - (*n as i128);
            if here && quirk == Quirk::IntAsShortFloat && *n < (1u64 << 63) && ((v as f64) as i128) == v {
                short_float(v as f64, out);
                *applied = true;
            } else {
                hd(1, *n, out, applied)
            }
        }
        Item::Bytes(b) => {
            if here && quirk == Quirk::Indefinite {
                out.push(0x5f);
                head(2, b.len() as u64, out);
                out.extend_from_slice(b);
                out.push(0xff);
                *applied = true;
            } else {
                hd(2, b.len() as u64, out, applied);
                out.extend_from_slice(b);
            }
        }
        Item::Text(s) => {
            let mut n: String = s.nfc().collect();
            if here && quirk == Quirk::TextNfd {
                let d: String = s.nfd().collect();
                if d != n {
                    n = d;
                    *applied = true;
                }
            }
            if here && quirk == Quirk::Indefinite {
                out.push(0x7f);
                head(3, n.len() as u64, out);
                out.extend_from_slice(n.as_bytes());
                out.push(0xff);
                *applied = true;
            } else {
                hd(3, n.len() as u64, out, applied);
                out.extend_from_slice(n.as_bytes());
            }
        }
        Item::Array(xs) => {
            let indef = here && quirk == Quirk::Indefinite;
            if indef {
                out.push(0x9f);
                *applied = true;
            } else {
                hd(4, xs.len() as u64, out, applied);
            }
            for x in xs {
                enc_q(x, counter, target, quirk, applied, out);
            }
            if indef {
                out.push(0xff);
            }
        }
        Item::Map(es) => {
            let mut enc: Vec<(Vec<u8>, Vec<u8>)> = Vec::new();
            for (k, v) in es {
                let mut kb = Vec::new();
                enc_q(k, counter, target, quirk, applied, &mut kb);
                let mut vb = Vec::new();
                enc_q(v, counter, target, quirk, applied, &mut vb);
                enc.push((kb, vb));
            }
            enc.sort_by(|a, b| a.0.cmp(&b.0));
            if here && quirk == Quirk::MapReversed && enc.len() >= 2 {
                enc.reverse();
                *applied = true;
            }
            if here && quirk == Quirk::MapDupKey && !enc.is_empty() {
                let first = enc[0].clone();
                enc.insert(0, first);
                *applied = true;
            }
            let indef = here && quirk == Quirk::Indefinite;
            if indef {
                out.push(0xbf);
                *applied = true;
            } else {
                hd(5, enc.len() as u64, out, applied);
            }
            for (k, v) in enc {
                out.extend_from_slice(&k);
                out.extend_from_slice(&v);
            }
            if indef {
                out.push(0xff);
            }
        }
        Item::Tag(t, x) => {
            hd(6, *t, out, applied);
            enc_q(x, counter, target, quirk, applied, out);
        }
        Item::Simple(v) => out.push(0xe0 | *v),
        Item::Float(f) => {
            if here && quirk == Quirk::FloatWide {
                let mut canon = Vec::new();
                encode_float(*f, &mut canon);
                if canon.len() < 9 {
                    out.push(0xfb);
                    out.extend_from_slice(&f.to_bits().to_be_bytes());
                    *applied = true;
                    return;
                }
            }
            if here && quirk == Quirk::NanPayload && f.is_nan() {
                out.extend_from_slice(&[0xf9, 0x7e, 0x01]);
                *applied = true;
                return;
            }
            if here && quirk == Quirk::NegZero {
                out.extend_from_slice(&[0xf9, 0x80, 0x00]);
                *applied = true;
                return;
            }
            encode_float(*f, out)
        }
    }
}

// ---------------------------------------------------------------------------------------------
// Strict dCBOR parser
// ---------------------------------------------------------------------------------------------

#[derive(Clone, Debug)]
pub struct P {
    pub start: usize,
    pub end: usize,
    pub k: PK,
}

#[derive(Clone, Debug)]
pub enum PK {
    UInt(u64),
    NInt(u64),
    Bytes(usize, usize),
    Text(usize, usize),
    Array(Vec<P>),
    Map(Vec<(P, P)>),
    Tag(u64, Box<P>),
    Simple(u8),
    Float(f64),
}

pub struct Parser<'a> {
    pub data: &'a [u8],
    pub max_depth: usize,
    /// when false, canonical-form violations are ignored (well-formedness only)
    pub strict: bool,
}

type PR<T> = Result<T, String>;

impl<'a> Parser<'a> {
    pub fn new(data: &'a [u8]) -> Self {
        Parser { data, max_depth: 4096, strict: true }
    }

    pub fn parse_all(&self) -> PR<P> {
        let p = self.item(0, 0)?;
        if p.end != self.data.len() {
            return Err(format!("trailing bytes: {}", self.data.len() - p.end));
        }
        Ok(p)
    }

    fn arg(&self, pos: usize) -> PR<(u8, u8, u64, usize)> {
        let d = self.data;
        if pos >= d.len() {
            return Err("underrun".into());
        }
        let b = d[pos];
        let major = b >> 5;
        let ai = b & 31;
        let need = |n: usize| -> PR<()> {
            if pos + 1 + n > d.len() {
                Err("underrun".into())
            } else {
                Ok(())
            }
        };
        let (v, len) = match ai {
            0..=23 => (ai as u64, 1),
            24 => {
                need(1)?;
                (d[pos + 1] as u64, 2)
            }
            25 => {
                need(2)?;
                (u16::from_be_bytes([d[pos + 1], d[pos + 2]]) as u64, 3)
            }
            26 => {
                need(4)?;
                (u32::from_be_bytes([d[pos + 1], d[pos + 2], d[pos + 3], d[pos + 4]]) as u64, 5)
            }
            27 => {
                need(8)?;
                let mut a = [0u8; 8];
                a.copy_from_slice(&d[pos + 1..pos + 9]);
                (u64::from_be_bytes(a), 9)
            }
            _ => return Err(format!("reserved/indefinite additional info {}", ai)),
        };
        if self.strict && major != 7 {
            let min_ok = match ai {
                24 => v >= 24,
                25 => v > 0xff,
                26 => v > 0xffff,
                27 => v > 0xffff_ffff,
                _ => true,
            };
            if !min_ok {
                return Err("non-shortest head".into());
            }
        }
        Ok((major, ai, v, len))
    }

    fn item(&self, pos: usize, depth: usize) -> PR<P> {
        if depth > self.max_depth {
            return Err("too deep".into());
        }
        let (major, ai, v, hl) = self.arg(pos)?;
        let d = self.data;
        let body = pos + hl;
        match major {
            0 => Ok(P { start: pos, end: body, k: PK::UInt(v) }),
            1 => Ok(P { start: pos, end: body, k: PK::NInt(v) }),
            2 | 3 => {
                let len = v as usize;
                if v > (d.len() as u64) || body + len > d.len() {
                    return Err("underrun".into());
                }
                if major == 2 {
                    Ok(P { start: pos, end: body + len, k: PK::Bytes(body, body + len) })
                } else {
                    let s = std::str::from_utf8(&d[body..body + len]).map_err(|_| "invalid utf8".to_string())?;
                    if self.strict && !is_nfc(s) {
                        return Err("text not NFC".into());
                    }
                    Ok(P { start: pos, end: body + len, k: PK::Text(body, body + len) })
                }
            }
            4 => {
                if v > d.len() as u64 {
                    return Err("underrun".into());
                }
                let mut xs = Vec::with_capacity(v as usize);
                let mut p = body;
                for _ in 0..v {
                    let x = self.item(p, depth + 1)?;
                    p = x.end;
                    xs.push(x);
                }
                Ok(P { start: pos, end: p, k: PK::Array(xs) })
            }
            5 => {
                if v > d.len() as u64 {
                    return Err("underrun".into());
                }
                let mut es: Vec<(P, P)> = Vec::with_capacity(v as usize);
                let mut p = body;
                for _ in 0..v {
                    let k = self.item(p, depth + 1)?;
                    let val = self.item(k.end, depth + 1)?;
                    p = val.end;
                    if self.strict {
                        if let Some((pk, _)) = es.last() {
                            let prev = &d[pk.start..pk.end];
                            let cur = &d[k.start..k.end];
                            if prev >= cur {
                                return Err("map keys not strictly ascending".into());
                            }
                        }
                    }
                    es.push((k, val));
                }
                Ok(P { start: pos, end: p, k: PK::Map(es) })
            }
            6 => {
                let x = self.item(body, depth + 1)?;
                Ok(P { start: pos, end: x.end, k: PK::Tag(v, Box::new(x)) })
            }
            _ => {
                // major 7
                match ai {
                    0..=23 => {
                        if v == 20 || v == 21 || v == 22 {
                            Ok(P { start: pos, end: body, k: PK::Simple(v as u8) })
                        } else {
                            Err(format!("simple value {} not allowed", v))
                        }
                    }
                    24 => Err("two-byte simple not allowed".into()),
                    25 => {
                        let h = half::f16::from_bits(v as u16);
                        let f = h.to_f64();
                        if self.strict {
                            self.check_float(f, 2, h.is_nan() && v != 0x7e00)?;
                        }
                        Ok(P { start: pos, end: body, k: PK::Float(f) })
                    }
                    26 => {
                        let s = f32::from_bits(v as u32);
                        if self.strict {
                            self.check_float(s as f64, 4, s.is_nan())?;
                        }
                        Ok(P { start: pos, end: body, k: PK::Float(s as f64) })
                    }
                    27 => {
                        let f = f64::from_bits(v);
                        if self.strict {
                            self.check_float(f, 8, f.is_nan())?;
                        }
                        Ok(P { start: pos, end: body, k: PK::Float(f) })
                    }
                    _ => Err("bad simple".into()),
                }
            }
        }
    }

    fn check_float(&self, f: f64, width: usize, bad_nan: bool) -> PR<()> {
        if bad_nan {
            return Err("non-canonical NaN".into());
        }
        let mut canon = Vec::new();
        encode_float(f, &mut canon);
        let canon_is_float = canon[0] >= 0xf9;
        if !canon_is_float {
            return Err(if width == 4 && f.abs() >= 4294967296.0 { "single-precision float holding an integer beyond thirty-two bits must be an integer".into() } else { "float with integral value must be an integer".into() });
        }
        if canon.len() - 1 != width {
            return Err("float not in shortest form".into());
        }
        Ok(())
    }
}

pub fn to_item(p: &P, data: &[u8]) -> Item {
    match &p.k {
        PK::UInt(n) => Item::UInt(*n),
        PK::NInt(n) => Item::NInt(*n),
        PK::Bytes(a, b) => Item::Bytes(data[*a..*b].to_vec()),
        PK::Text(a, b) => Item::Text(String::from_utf8_lossy(&data[*a..*b]).into_owned()),
        PK::Array(xs) => Item::Array(xs.iter().map(|x| to_item(x, data)).collect()),
        PK::Map(es) => Item::Map(es.iter().map(|(k, v)| (to_item(k, data), to_item(v, data))).collect()),
        PK::Tag(t, x) => Item::Tag(*t, Box::new(to_item(x, data))),
        PK::Simple(v) => Item::Simple(*v),
        PK::Float(f) => Item::Float(*f),
    }
}

pub fn parse_item(data: &[u8]) -> PR<Item> {
    let p = Parser::new(data).parse_all()?;
    Ok(to_item(&p, data))
}

// ---------------------------------------------------------------------------------------------
// Envelope grammar + digest tree
// ---------------------------------------------------------------------------------------------

#[derive(Clone, Copy, Debug, PartialEq, Eq, Hash, PartialOrd, Ord)]
pub enum Kind {
    Node,
    Leaf,
    Wrapped,
    Assertion,
    Elided,
    KnownValue,
    Encrypted,
    Compressed,
}

impl Kind {
    pub fn is_obscured(self) -> bool {
        matches!(self, Kind::Elided | Kind::Encrypted | Kind::Compressed)
    }
    pub fn code(self) -> u8 {
        match self {
            Kind::Node => b'N',
            Kind::Leaf => b'L',
            Kind::Wrapped => b'W',
            Kind::Assertion => b'A',
            Kind::Elided => b'E',
            Kind::KnownValue => b'K',
            Kind::Encrypted => b'X',
            Kind::Compressed => b'C',
        }
    }
}

/// Spec-side view of an envelope parsed from bytes.
#[derive(Clone, Debug)]
pub struct SEnv {
    pub kind: Kind,
    pub digest: D32,
    /// byte span of the element (untagged form) in the input
    pub start: usize,
    pub end: usize,
    /// Node: [subject, assertions...]; Assertion: [predicate, object]; Wrapped: [inner]
    pub children: Vec<SEnv>,
    /// Leaf: span of the leaf CBOR (inside the 201/24 tag); KnownValue: value in `kv`
    pub leaf: Option<(usize, usize)>,
    pub kv: Option<u64>,
    /// leaf was tagged #6.24 (deprecated alias)
    pub alias24: bool,
}

#[derive(Clone, Debug, PartialEq, Eq)]
pub struct Reject(pub String);

fn rej<T>(s: impl Into<String>) -> Result<T, Reject> {
    Err(Reject(s.into()))
}

/// Parse `#6.200(envelope)` from bytes, strictly.
pub fn parse_envelope(data: &[u8]) -> Result<SEnv, Reject> {
    let p = Parser::new(data).parse_all().map_err(|e| Reject(format!("cbor: {}", e)))?;
    match &p.k {
        PK::Tag(t, inner) if *t == TAG_ENVELOPE => untagged(inner, data),
        _ => rej("top level is not #6.200"),
    }
}

/// Parse with only well-formedness of the CBOR required (grammar still enforced).
pub fn parse_envelope_lenient_cbor(data: &[u8]) -> Result<SEnv, Reject> {
    let mut ps = Parser::new(data);
    ps.strict = false;
    let p = ps.parse_all().map_err(|e| Reject(format!("cbor: {}", e)))?;
    match &p.k {
        PK::Tag(t, inner) if *t == TAG_ENVELOPE => untagged(inner, data),
        _ => rej("top level is not #6.200"),
    }
}

fn subject_kind(e: &SEnv) -> Kind {
    if e.kind == Kind::Node {
        subject_kind(&e.children[0])
    } else {
        e.kind
    }
}

fn tagged_digest(p: &P, data: &[u8]) -> Option<D32> {
    if let PK::Tag(t, x) = &p.k {
        if *t == TAG_DIGEST {
            if let PK::Bytes(a, b) = x.k {
                if b - a == 32 {
                    let mut d = [0u8; 32];
                    d.copy_from_slice(&data[a..b]);
                    return Some(d);
                }
            }
        }
    }
    None
}

pub fn untagged(p: &P, data: &[u8]) -> Result<SEnv, Reject> {
    let mk = |kind, digest, children, leaf, kv, alias24| SEnv { kind, digest, start: p.start, end: p.end, children, leaf, kv, alias24 };
    match &p.k {
        PK::Tag(t, x) => match *t {
            TAG_LEAF | TAG_ENCODED_CBOR => {
                let d = sha256(&data[x.start..x.end]);
                Ok(mk(Kind::Leaf, d, vec![], Some((x.start, x.end)), None, *t == TAG_ENCODED_CBOR))
            }
            TAG_ENVELOPE => {
                let inner = untagged(x, data)?;
                let d = sha256_cat(&[inner.digest]);
                Ok(mk(Kind::Wrapped, d, vec![inner], None, None, false))
            }
            TAG_ENCRYPTED => {
                let xs = match &x.k {
                    PK::Array(xs) => xs,
                    _ => return rej("encrypted: not an array"),
                };
                if xs.len() != 4 {
                    return rej(format!("encrypted: arity {} (need ciphertext, nonce, tag, aad-with-digest)", xs.len()));
                }
                let blen = |q: &P| if let PK::Bytes(a, b) = q.k { Some(b - a) } else { None };
                if blen(&xs[0]).is_none() {
                    return rej("encrypted: ciphertext not bytes");
                }
                if blen(&xs[1]) != Some(12) {
                    return rej("encrypted: nonce not 12 bytes");
                }
                if blen(&xs[2]) != Some(16) {
                    return rej("encrypted: auth tag not 16 bytes");
                }
                let (a, b) = match xs[3].k {
                    PK::Bytes(a, b) => (a, b),
                    _ => return rej("encrypted: aad not bytes"),
                };
                let aad = &data[a..b];
                let ap = Parser::new(aad).parse_all().map_err(|e| Reject(format!("encrypted: aad cbor: {}", e)))?;
                let d = tagged_digest(&ap, aad).ok_or(Reject("encrypted: aad is not #6.40001(h'32')".into()))?;
                Ok(mk(Kind::Encrypted, d, vec![], None, None, false))
            }
            TAG_COMPRESSED => {
                let xs = match &x.k {
                    PK::Array(xs) => xs,
                    _ => return rej("compressed: not an array"),
                };
                if xs.len() != 4 {
                    return rej(format!("compressed: arity {} (need crc, size, data, digest)", xs.len()));
                }
                match xs[0].k {
                    PK::UInt(n) if n <= u32::MAX as u64 => {}
                    _ => return rej("compressed: checksum not u32"),
                }
                if !matches!(xs[1].k, PK::UInt(_)) {
                    return rej("compressed: size not uint");
                }
                if !matches!(xs[2].k, PK::Bytes(_, _)) {
                    return rej("compressed: data not bytes");
                }
                let d = tagged_digest(&xs[3], data).ok_or(Reject("compressed: 4th element is not #6.40001(h'32')".into()))?;
                Ok(mk(Kind::Compressed, d, vec![], None, None, false))
            }
            other => rej(format!("unknown tag {}", other)),
        },
        PK::Bytes(a, b) => {
            if b - a != 32 {
                return rej(format!("elided digest of {} bytes", b - a));
            }
            let mut d = [0u8; 32];
            d.copy_from_slice(&data[*a..*b]);
            Ok(mk(Kind::Elided, d, vec![], None, None, false))
        }
        PK::Array(xs) => {
            if xs.len() < 2 {
                return rej("node with fewer than two elements");
            }
            let mut children = Vec::with_capacity(xs.len());
            for x in xs {
                children.push(untagged(x, data)?);
            }
            for (i, a) in children.iter().enumerate().skip(1) {
                let sk = subject_kind(a);
                if !(sk == Kind::Assertion || sk.is_obscured()) {
                    return rej(format!("assertion slot {} holds a {:?}", i, sk));
                }
            }
            for i in 2..children.len() {
                if children[i - 1].digest >= children[i].digest {
                    return rej(if children[i - 1].digest == children[i].digest {
                        "duplicate assertion digest".to_string()
                    } else {
                        "assertions not in ascending digest order".to_string()
                    });
                }
            }
            let ds: Vec<D32> = children.iter().map(|c| c.digest).collect();
            let d = sha256_cat(&ds);
            Ok(mk(Kind::Node, d, children, None, None, false))
        }
        PK::Map(es) => {
            if es.len() != 1 {
                return rej(format!("assertion map with {} entries", es.len()));
            }
            let pr = untagged(&es[0].0, data)?;
            let ob = untagged(&es[0].1, data)?;
            let d = sha256_cat(&[pr.digest, ob.digest]);
            Ok(mk(Kind::Assertion, d, vec![pr, ob], None, None, false))
        }
        PK::UInt(n) => {
            let enc = encode(&Item::Tag(TAG_KNOWN_VALUE, Box::new(Item::UInt(*n))));
            Ok(mk(Kind::KnownValue, sha256(&enc), vec![], None, Some(*n), false))
        }
        _ => rej("not an envelope element"),
    }
}

impl SEnv {
    pub fn count(&self) -> usize {
        1 + self.children.iter().map(|c| c.count()).sum::<usize>()
    }
    pub fn depth(&self) -> usize {
        1 + self.children.iter().map(|c| c.depth()).max().unwrap_or(0)
    }
    /// structure signature: kinds in pre-order with arities (no digests, no leaf content)
    pub fn shape(&self, out: &mut Vec<u8>) {
        out.push(self.kind.code());
        if self.kind == Kind::Node {
            out.push(b'0' + (self.children.len().min(40) as u8));
        }
        for c in &self.children {
            c.shape(out);
        }
    }
    pub fn all_digests(&self, out: &mut Vec<D32>) {
        out.push(self.digest);
        for c in &self.children {
            c.all_digests(out);
        }
    }
}

#[cfg(test)]
mod tests {
    use super::*;

    fn h(s: &str) -> Vec<u8> {
        hex::decode(s).unwrap()
    }

    #[test]
    fn spec_vectors() {
        // draft-mcnally-envelope §4.1: leaf "Hello." digest
        let e = encode(&Item::Tag(200, Box::new(Item::Tag(201, Box::new(Item::Text("Hello.".into()))))));
        let s = parse_envelope(&e).unwrap();
        assert_eq!(hex::encode(s.digest), "8cc96cdb771176e835114a0f8936690b41cfed0df22d014eedd64edaea945d59");
    }

    #[test]
    fn floats() {
        let mut o = vec![];
        encode_float(1.5, &mut o);
        assert_eq!(o, h("f93e00"));
        o.clear();
        encode_float(2.0, &mut o);
        assert_eq!(o, h("02"));
        o.clear();
        encode_float(-0.0, &mut o);
        assert_eq!(o, h("00"));
        o.clear();
        encode_float(f64::INFINITY, &mut o);
        assert_eq!(o, h("f97c00"));
        o.clear();
        encode_float(1.1, &mut o);
        assert_eq!(o, h("fb3ff199999999999a"));
    }
}
