fn main() {}
