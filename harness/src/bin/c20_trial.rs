//! C20 — one first-use race trial per process (also the TSan and Miri target).
//!
//!   c20_trial --reference K --out FILE         run every op alone after K register_tags() calls
//!   c20_trial --seed S --threads T --len L --out FILE|--out-dir DIR
//!
//! Trial output: one line per event
//!   E <thread> <op> <env> <call_ts> <ret_ts> <result-hash-hex> <ok|panic>
//!   H <thread> <hook point> <ts>
//! Timestamps come from ONE global logical clock (AtomicU64, SeqCst), taken immediately before
//! the call and after the return at the client boundary. Buffers are thread-local during the run
//! and merged after the threads have been joined.

use std::cell::RefCell;
use std::sync::atomic::{AtomicU64, Ordering};
use std::sync::{Arc, Barrier};

use bc_components::{Digest, ARID};
use bc_envelope::prelude::*;
use bc_envelope::{GLOBAL_FORMAT_CONTEXT, KNOWN_VALUES};

static CLOCK: AtomicU64 = AtomicU64::new(1);

fn tick() -> u64 {
    CLOCK.fetch_add(1, Ordering::SeqCst)
}

fn fnv(s: &[u8]) -> u64 {
    let mut h: u64 = 0xcbf29ce484222325;
    for b in s {
        h ^= *b as u64;
        h = h.wrapping_mul(0x100000001b3);
    }
    h
}

fn splitmix(x: &mut u64) -> u64 {
    *x = x.wrapping_add(0x9E37_79B9_7F4A_7C15);
    let mut z = *x;
    z = (z ^ (z >> 30)).wrapping_mul(0xBF58_476D_1CE4_E5B9);
    z = (z ^ (z >> 27)).wrapping_mul(0x94D0_49BB_1331_11EB);
    z ^ (z >> 31)
}

thread_local! {
    static HOOKS: RefCell<Vec<(&'static str, u64)>> = const { RefCell::new(Vec::new()) };
    static DELAY: RefCell<(u64, u32)> = const { RefCell::new((0, 0)) };
}

/// failpoint callback: record (point, ts) thread-locally and perform a seeded yield / short sleep
#[cfg(feature = "hooks")]
fn hook(point: &'static str) {
    HOOKS.with(|h| h.borrow_mut().push((point, tick())));
    let (r, mode) = DELAY.with(|d| {
        let mut d = d.borrow_mut();
        let r = splitmix(&mut d.0);
        (r, d.1)
    });
    if mode == 0 {
        return;
    }
    match r % 8 {
        0 | 1 => std::thread::yield_now(),
        2 => {
            if !cfg!(miri) {
                std::thread::sleep(std::time::Duration::from_micros(20 + (r >> 8) % 200))
            } else {
                std::thread::yield_now()
            }
        }
        3 => {
            for _ in 0..((r >> 8) % 4) {
                std::thread::yield_now();
            }
        }
        _ => {}
    }
}

fn arid(n: u8) -> ARID {
    ARID::from_data([n; 32])
}

/// the fixed envelope set: text depends on tags / known values / functions / parameters registries
fn envelopes() -> Vec<Envelope> {
    let id = arid(7);
    let date = dcbor::Date::from_timestamp(1_720_091_471.0);
    let req = Request::new(functions::ADD, id).with_parameter(parameters::LHS, 2).with_parameter(parameters::RHS, 3).with_note("n").with_date(&date);
    let req_env: Envelope = req.clone().into();
    let resp = Response::new_success(id).with_result("ok");
    let resp_env: Envelope = resp.clone().into();
    let fail: Envelope = Response::new_failure(id).with_error("bad").into();
    let early: Envelope = Response::new_early_failure().into();
    let ev: Envelope = Event::<String>::new("happened", id).with_note("e").with_date(&date).into();
    let named: Envelope = Expression::new("myFunc").with_parameter("p1", 1).with_parameter(Parameter::new_known(77, None), "x").into();
    let key = bc_components::SymmetricKey::from_data([9u8; 32]);
    let nonce = bc_components::Nonce::from_data([3u8; 12]);
    let alice = Envelope::new("Alice").add_assertion("knows", "Bob").add_assertion(known_values::NOTE, "a note").add_type(known_values::SEED_TYPE);
    // leaves that nest request / response / event tags inside one another (text depends on how many
    // times register_tags() has completed)
    let nested1 = Envelope::new(dcbor::CBOR::to_tagged_value(40004u64, dcbor::CBOR::to_tagged_value(40005u64, id)));
    let nested2 = Envelope::new(dcbor::CBOR::to_tagged_value(40005u64, dcbor::CBOR::to_tagged_value(40026u64, dcbor::CBOR::to_tagged_value(40004u64, id))));
    let nested3 = Envelope::new(dcbor::CBOR::to_tagged_value(40026u64, dcbor::CBOR::to_tagged_value(40000u64, 4)));
    let mut v = vec![
        Envelope::new("Hello."),
        Envelope::new(42),
        Envelope::new(-7),
        Envelope::new(1.5),
        Envelope::new(true),
        Envelope::null(),
        Envelope::new(dcbor::ByteString::from(vec![1u8, 2, 3])),
        Envelope::new(known_values::NOTE),
        Envelope::new(KnownValue::new(12345)),
        Envelope::new(KnownValue::new(0)),
        Envelope::new(date.clone()),
        Envelope::new(id),
        Envelope::new(Digest::from_image(b"x")),
        Envelope::new(bc_components::UUID::from_data([5u8; 16])),
        Envelope::new(bc_components::URI::new("https://example.com").unwrap()),
        Envelope::new(bc_components::Salt::from_data(vec![1u8; 10])),
        Envelope::new(functions::ADD),
        Envelope::new(Function::new_known(999, None)),
        Envelope::new(Function::new_named("named")),
        Envelope::new(parameters::LHS),
        Envelope::new(Parameter::new_known(888, None)),
        Envelope::new(Parameter::new_named("pn")),
        Envelope::new_assertion(known_values::IS_A, known_values::SEED_TYPE),
        alice.clone(),
        alice.wrap_envelope(),
        alice.elide_removing_target(&Envelope::new("Bob")),
        alice.compress().unwrap(),
        alice.encrypt_subject_opt(&key, Some(nonce)).unwrap(),
        alice.elide(),
        req_env.clone(),
        resp_env.clone(),
        fail,
        early,
        ev,
        named,
        nested1,
        nested2,
        nested3,
        Envelope::new("outer").add_assertion("request", req_env.clone()).add_assertion("response", resp_env.clone()),
        Envelope::new(vec![1, 2, 3]),
        Envelope::new(dcbor::CBOR::to_tagged_value(12345u64, "unknown tag")),
        Envelope::new(dcbor::CBOR::to_tagged_value(40001u64, "not a digest")),
    ];
    // LAST-BUT-ONE: a leaf whose date summarizer panics inside dcbor (known finding D14); operations on it
    // may panic, but nothing else may be affected by that afterwards
    v.push(Envelope::new("event").add_assertion("when", Envelope::new(dcbor::CBOR::to_tagged_value(1u64, 1.0e300))));
    v.push(Envelope::new("many").add_assertion(known_values::DATE, date).add_assertion(known_values::ID, id).add_assertion(functions::MUL, parameters::BLANK));
    v
}

pub const OPS: [&str; 20] = [
    "format",
    "format_flat",
    "tree_format",
    "tree_format_hide",
    "diagnostic",
    "diagnostic_annotated",
    "hex",
    "hex_annotated",
    "display",
    "request_summary",
    "response_summary",
    "kv_lookup",
    "fn_lookup",
    "param_lookup",
    "ctx_lookup",
    "digest_bytes",
    // format while this thread holds a registry guard (only after the thread has formatted once, so
    // that lazy initialisation - which itself consults the registries - is over)
    "kv_guard_format",
    "fn_guard_format",
    "param_guard_format",
    "register_tags",
];

fn run_op(op: &str, e: &Envelope, idx: usize) -> String {
    match op {
        "format" => e.format(),
        "format_flat" => e.format_flat(),
        "tree_format" => e.tree_format(false),
        "tree_format_hide" => e.tree_format(true),
        "diagnostic" => e.diagnostic(),
        "diagnostic_annotated" => e.diagnostic_annotated(),
        "hex" => e.hex(),
        "hex_annotated" => e.hex_opt(true, None),
        "display" => format!("{}", e),
        "request_summary" => match Request::try_from(e.clone()) {
            // one formatting call per operation: an operation that formats twice may legitimately see
            // two registry states and would not be comparable with any single sequential run
            Ok(r) => r.summary(),
            Err(_) => "not a request".into(),
        },
        "response_summary" => match Response::try_from(e.clone()) {
            Ok(r) => format!("{}", r),
            Err(_) => "not a response".into(),
        },
        "kv_lookup" => {
            let g = KNOWN_VALUES.get();
            let s = g.as_ref().unwrap();
            let kv = KnownValue::new((idx as u64) % 30);
            format!("{} {:?} {:?}", s.name(kv.clone()), s.assigned_name(&kv), s.known_value_named("note").map(|k| k.value()))
        }
        "fn_lookup" => {
            let g = bc_envelope::extension::expressions::GLOBAL_FUNCTIONS.get();
            let s = g.as_ref().unwrap();
            let f = Function::new_known((idx as u64) % 6, None);
            format!("{} {:?}", s.name(&f), s.assigned_name(&f))
        }
        "param_lookup" => {
            let g = bc_envelope::extension::expressions::GLOBAL_PARAMETERS.get();
            let s = g.as_ref().unwrap();
            let p = Parameter::new_known((idx as u64) % 5, None);
            format!("{} {:?}", s.name(&p), s.assigned_name(&p))
        }
        "ctx_lookup" => {
            let g = GLOBAL_FORMAT_CONTEXT.get();
            let c = g.as_ref().unwrap();
            format!("{} {} {}", c.tags().name_for_value(200 + (idx as u64) % 3), c.known_values().name(KnownValue::new((idx as u64) % 20)), c.tags().name_for_value(40000 + (idx as u64) % 30))
        }
        "kv_guard_format" => {
            let g = KNOWN_VALUES.get();
            let t = e.format();
            drop(g);
            t
        }
        "fn_guard_format" => {
            let g = bc_envelope::extension::expressions::GLOBAL_FUNCTIONS.get();
            let t = e.format();
            drop(g);
            t
        }
        "param_guard_format" => {
            let g = bc_envelope::extension::expressions::GLOBAL_PARAMETERS.get();
            let t = e.format();
            drop(g);
            t
        }
        "digest_bytes" => format!("{} {}", hex::encode(bc_components::DigestProvider::digest(e).data()), hex::encode(e.tagged_cbor().to_cbor_data())),
        "register_tags" => {
            bc_envelope::register_tags();
            "registered".into()
        }
        _ => unreachable!(),
    }
}

fn arg(args: &[String], name: &str) -> Option<String> {
    args.iter().position(|a| a == name).and_then(|i| args.get(i + 1).cloned())
}

fn reference(k: usize, out: &str) {
    for _ in 0..k {
        bc_envelope::register_tags();
    }
    let envs = envelopes();
    let mut s = String::new();
    for op in OPS.iter().filter(|o| **o != "register_tags" && !o.ends_with("_guard_format")) {
        for (i, e) in envs.iter().enumerate() {
            let text = match std::panic::catch_unwind(std::panic::AssertUnwindSafe(|| run_op(op, e, i))) {
                Ok(t) => t,
                Err(_) => "<<PANIC>>".to_string(),
            };
            s.push_str(&format!("R {} {} {:016x} {}\n", op, i, fnv(text.as_bytes()), text.replace('\n', "\\n").chars().take(160).collect::<String>()));
        }
    }
    std::fs::write(out, s).expect("write reference");
}

struct Ev {
    thread: usize,
    op: &'static str,
    env: usize,
    call: u64,
    ret: u64,
    hash: u64,
    ok: bool,
}

fn main() {
    let args: Vec<String> = std::env::args().collect();
    if args.iter().any(|a| a == "--reference") {
        std::panic::set_hook(Box::new(|_| {}));
    }
    if let Some(k) = arg(&args, "--reference") {
        reference(k.parse().unwrap(), &arg(&args, "--out").unwrap());
        return;
    }
    let seed: u64 = arg(&args, "--seed").and_then(|s| s.parse().ok()).unwrap_or(1);
    let threads: usize = arg(&args, "--threads").and_then(|s| s.parse().ok()).unwrap_or(4);
    let len: usize = arg(&args, "--len").and_then(|s| s.parse().ok()).unwrap_or(20);
    let delay_mode: u32 = arg(&args, "--delays").and_then(|s| s.parse().ok()).unwrap_or(1);
    #[cfg(feature = "hooks")]
    {
        bc_envelope::verif_hooks::install(hook);
    }
    // silence panic messages; panics are recorded as events
    std::panic::set_hook(Box::new(|_| {}));

    // With the `multithreaded` feature one set of Arc-backed envelopes is shared by all threads;
    // otherwise (Rc) every thread builds its own copies. Building envelopes touches no registry.
    #[cfg(feature = "mt")]
    let shared: Arc<Vec<Envelope>> = Arc::new(envelopes());
    let barrier = Arc::new(Barrier::new(threads));
    let mut handles = Vec::new();
    for t in 0..threads {
        let barrier = barrier.clone();
        #[cfg(feature = "mt")]
        let shared = shared.clone();
        handles.push(std::thread::spawn(move || {
            #[cfg(feature = "mt")]
            let envs: &Vec<Envelope> = &shared;
            #[cfg(not(feature = "mt"))]
            let owned = envelopes();
            #[cfg(not(feature = "mt"))]
            let envs: &Vec<Envelope> = &owned;
            let mut rs = seed ^ ((t as u64 + 1).wrapping_mul(0x9E37_79B9_7F4A_7C15));
            DELAY.with(|d| *d.borrow_mut() = (splitmix(&mut rs), delay_mode));
            let mut events: Vec<Ev> = Vec::with_capacity(len);
            let mut formatted_once = false;
            barrier.wait();
            for _ in 0..len {
                let r = splitmix(&mut rs);
                // register_tags about 1 in 12 operations, so k moves during the trial
                let mut op: &'static str = if r % 12 == 0 { "register_tags" } else { OPS[((r >> 8) % (OPS.len() as u64 - 1)) as usize] };
                if op.ends_with("_guard_format") && !formatted_once {
                    op = "format";
                }
                if op == "format" || op == "format_flat" || op == "tree_format" {
                    formatted_once = true;
                }
                let ei = ((r >> 24) % envs.len() as u64) as usize;
                let e = &envs[ei];
                let call = tick();
                let res = std::panic::catch_unwind(std::panic::AssertUnwindSafe(|| run_op(op, e, ei)));
                let ret = tick();
                match res {
                    Ok(text) => events.push(Ev { thread: t, op, env: ei, call, ret, hash: fnv(text.as_bytes()), ok: true }),
                    Err(_) => events.push(Ev { thread: t, op, env: ei, call, ret, hash: 0, ok: false }),
                }
            }
            let hooks: Vec<(&'static str, u64)> = HOOKS.with(|h| h.borrow().clone());
            (events, hooks)
        }));
    }
    let mut out = String::new();
    let mut joined = 0;
    for (t, h) in handles.into_iter().enumerate() {
        match h.join() {
            Ok((events, hooks)) => {
                joined += 1;
                for e in events {
                    out.push_str(&format!("E {} {} {} {} {} {:016x} {}\n", e.thread, e.op, e.env, e.call, e.ret, e.hash, if e.ok { "ok" } else { "panic" }));
                }
                for (p, ts) in hooks {
                    out.push_str(&format!("H {} {} {}\n", t, p, ts));
                }
            }
            Err(_) => out.push_str(&format!("X {} thread-died\n", t)),
        }
    }
    out.push_str(&format!("DONE threads={} joined={} seed={} len={}\n", threads, joined, seed, len));
    if let Some(dir) = arg(&args, "--out-dir") {
        let nanos = std::time::SystemTime::now().duration_since(std::time::UNIX_EPOCH).map(|d| d.as_nanos()).unwrap_or(0);
        let _ = std::fs::create_dir_all(&dir);
        std::fs::write(format!("{}/trial-{}-{}.log", dir, seed, nanos), out).expect("write trial log");
    } else if let Some(path) = arg(&args, "--out") {
        std::fs::write(path, out).expect("write trial log");
    } else {
        print!("{}", out);
    }
}
