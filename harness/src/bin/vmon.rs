use std::path::PathBuf;

use vmon::ctx::{Ctx, Tier};

fn arg(args: &[String], name: &str) -> Option<String> {
    args.iter().position(|a| a == name).and_then(|i| args.get(i + 1).cloned())
}

fn main() {
    let args: Vec<String> = std::env::args().collect();
    if args.len() < 2 {
        eprintln!("usage: vmon <PROP> --tier quick|thorough --seed N --shard I --nshards N --out DIR [--replays DIR] [--case K]");
        std::process::exit(2);
    }
    let prop = args[1].clone();
    let tier = match arg(&args, "--tier").as_deref() {
        Some("thorough") => Tier::Thorough,
        _ => Tier::Quick,
    };
    let seed: u64 = arg(&args, "--seed").and_then(|s| s.parse().ok()).unwrap_or(0);
    let shard: u64 = arg(&args, "--shard").and_then(|s| s.parse().ok()).unwrap_or(0);
    let nshards: u64 = arg(&args, "--nshards").and_then(|s| s.parse().ok()).unwrap_or(1);
    let out = PathBuf::from(arg(&args, "--out").unwrap_or_else(|| "/verif/work/tmp".into()));
    let replays = PathBuf::from(arg(&args, "--replays").unwrap_or_else(|| "/verif/replays".into()));
    std::fs::create_dir_all(&out).expect("create out dir");
    vmon::trap::install();
    // An application may register known values / functions of its own under any names, also names that collide
    // with well-known ones (the global registries are naming aids for formatting). Every worker does so before
    // anything else: nothing the library computes may depend on a registry lookup by NAME.
    {
        use bc_envelope::prelude::*;
        let mut g = bc_envelope::KNOWN_VALUES.get();
        if let Some(store) = g.as_mut() {
            for (i, name) in ["salt", "isA", "signed", "hasRecipient", "sskrShare", "attachment", "vendor", "conformsTo", "note", "date", "body", "result", "error", "content", "OK", "Unknown", "id"].iter().enumerate() {
                store.insert(KnownValue::new_with_name(100_000u64 + i as u64, name.to_string()));
            }
        }
    }
    let mut ctx = Ctx::new(&prop, tier, seed, shard, nshards, out, replays);
    ctx.only_case = arg(&args, "--case").and_then(|s| s.parse().ok());
    if !vmon::props::run(&prop, &mut ctx) {
        eprintln!("unknown property {}", prop);
        std::process::exit(2);
    }
    ctx.finish();
}
