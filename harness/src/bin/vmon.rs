use std::path::PathBuf;

use vmon::ctx::{Ctx, Tier};

fn arg(args: &[String], name: &str) -> Option<String> {
    args.iter().position(|a| a == name).and_then(|i| args.get(i + 1).cloned())
}

fn main() {
    let args: Vec<String> = std::env::args().collect();
    if args.len() < 2 {
        eprintln!("usage: vmon <PROP> --tier quick|thorough --seed N --shard I --nshards N --out DIR [--replays DIR] [--case K]");
        std::process::exit(2);
    }
    let prop = args[1].clone();
    let tier = match arg(&args, "--tier").as_deref() {
        Some("thorough") => Tier::Thorough,
        _ => Tier::Quick,
    };
    let seed: u64 = arg(&args, "--seed").and_then(|s| s.parse().ok()).unwrap_or(0);
    let shard: u64 = arg(&args, "--shard").and_then(|s| s.parse().ok()).unwrap_or(0);
    let nshards: u64 = arg(&args, "--nshards").and_then(|s| s.parse().ok()).unwrap_or(1);
    let out = PathBuf::from(arg(&args, "--out").unwrap_or_else(|| "/verif/work/tmp".into()));
    let replays = PathBuf::from(arg(&args, "--replays").unwrap_or_else(|| "/verif/replays".into()));
    std::fs::create_dir_all(&out).expect("create out dir");
    vmon::trap::install();
    let mut ctx = Ctx::new(&prop, tier, seed, shard, nshards, out, replays);
    ctx.only_case = arg(&args, "--case").and_then(|s| s.parse().ok());
    if !vmon::props::run(&prop, &mut ctx) {
        eprintln!("unknown property {}", prop);
        std::process::exit(2);
    }
    ctx.finish();
}
