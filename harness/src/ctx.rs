//! Worker context: counts what the monitors actually observed and records violations.

use std::collections::{BTreeMap, HashSet};
use std::io::Write;
use std::path::PathBuf;

use crate::json::J;

#[derive(Clone, Copy, PartialEq, Eq, Debug)]
pub enum Tier {
    Quick,
    Thorough,
}

pub struct Ctx {
    pub prop: String,
    pub tier: Tier,
    pub seed: u64,
    pub shard: u64,
    pub nshards: u64,
    pub out_dir: PathBuf,
    pub replay_dir: PathBuf,
    pub only_case: Option<u64>,
    pub scale: f64,
    pub evaluations: u64,
    pub sigs: HashSet<u64>,
    pub samples: Vec<J>,
    pub max_samples: usize,
    pub counters: BTreeMap<String, u64>,
    pub viol_counts: BTreeMap<String, u64>,
    pub viol_first: BTreeMap<String, (String, String)>,
    pub current_case: u64,
    pub notes: Vec<String>,
    progress_every: u64,
}

impl Ctx {
    pub fn new(prop: &str, tier: Tier, seed: u64, shard: u64, nshards: u64, out_dir: PathBuf, replay_dir: PathBuf) -> Self {
        let scale = std::env::var("VERIF_SCALE").ok().and_then(|s| s.parse().ok()).unwrap_or(1.0);
        Ctx {
            prop: prop.to_string(),
            tier,
            seed,
            shard,
            nshards,
            out_dir,
            replay_dir,
            only_case: None,
            scale,
            evaluations: 0,
            sigs: HashSet::new(),
            samples: Vec::new(),
            max_samples: 4,
            counters: BTreeMap::new(),
            viol_counts: BTreeMap::new(),
            viol_first: BTreeMap::new(),
            current_case: 0,
            notes: Vec::new(),
            progress_every: 64,
        }
    }

    /// number of cases for this tier (scaled by VERIF_SCALE)
    pub fn n(&self, quick: u64, thorough: u64) -> u64 {
        let base = if self.tier == Tier::Quick { quick } else { thorough };
        ((base as f64) * self.scale).ceil().max(1.0) as u64
    }

    pub fn pick<T: Copy>(&self, quick: T, thorough: T) -> T {
        if self.tier == Tier::Quick {
            quick
        } else {
            thorough
        }
    }

    /// the case indices of this shard among 0..total
    pub fn cases(&self, total: u64) -> Vec<u64> {
        if let Some(c) = self.only_case {
            return vec![c];
        }
        // case c belongs to shard (c + c / nshards) % nshards: each block of nshards cases is rotated by its
        // block number, so that selectors such as `case % 16 == 0` or `case % 400 == 0` (the expensive
        // special cases) are spread over all workers instead of landing on one
        (0..total).filter(|c| (c + c / self.nshards) % self.nshards == self.shard).collect()
    }

    pub fn begin_case(&mut self, case: u64) {
        self.current_case = case;
        if case / self.nshards % self.progress_every == 0 {
            let p = self.out_dir.join(format!("shard-{}.progress", self.shard));
            let _ = std::fs::write(p, format!("{}", case));
        }
    }

    pub fn rng(&self, case: u64) -> crate::rng::Rng {
        crate::rng::Rng::for_case(self.seed, &self.prop, case)
    }

    pub fn eval(&mut self) {
        self.evaluations += 1;
    }
    pub fn evals(&mut self, n: u64) {
        self.evaluations += n;
    }
    pub fn nontrivial(&mut self, sig: u64) {
        self.sigs.insert(sig);
    }
    pub fn count(&mut self, key: &str) {
        *self.counters.entry(key.to_string()).or_insert(0) += 1;
    }
    pub fn count_n(&mut self, key: &str, n: u64) {
        *self.counters.entry(key.to_string()).or_insert(0) += n;
    }
    pub fn sample(&mut self, j: impl FnOnce() -> J) {
        if self.samples.len() < self.max_samples {
            let v = j();
            self.samples.push(v);
        }
    }

    /// Record a violation. `signature` is stable (no line numbers, no random data).
    pub fn violation(&mut self, signature: &str, detail: &str, replay: J) {
        let c = self.viol_counts.entry(signature.to_string()).or_insert(0);
        *c += 1;
        if *c <= 2 {
            let dir = self.replay_dir.join(&self.prop);
            let _ = std::fs::create_dir_all(&dir);
            // (the build variant the worker was built as: default, or "mt" / "release" - see check)
            let variant = std::env::var("VERIF_VARIANT").unwrap_or_default();
            let name = format!("{:016x}-s{}-c{}-{}{}.json", crate::rng::fnv(signature), self.seed, self.current_case, *c, if variant.is_empty() { String::new() } else { format!("-{}", variant) });
            let path = dir.join(name);
            let doc = J::obj(vec![
                ("property", J::s(&self.prop)),
                ("signature", J::s(signature)),
                ("detail", J::s(detail)),
                ("seed", J::i(self.seed)),
                ("case", J::i(self.current_case)),
                ("tier", J::s(if self.tier == Tier::Quick { "quick" } else { "thorough" })),
                ("variant", J::s(&variant)),
                ("scale", J::s(std::env::var("VERIF_SCALE").unwrap_or_default())),
                ("replay_cmd", J::s(format!("./check {} --replay {}", self.prop, path.display()))),
                ("inputs", replay),
            ]);
            let _ = std::fs::write(&path, doc.to_string());
            if *c == 1 {
                self.viol_first.insert(signature.to_string(), (detail.to_string(), path.display().to_string()));
            }
        }
    }

    pub fn finish(&mut self) {
        let mut sig_bytes = Vec::with_capacity(self.sigs.len() * 8);
        for s in &self.sigs {
            sig_bytes.extend_from_slice(&s.to_le_bytes());
        }
        let _ = std::fs::write(self.out_dir.join(format!("shard-{}.sigs", self.shard)), sig_bytes);
        let viols: Vec<J> = self
            .viol_counts
            .iter()
            .map(|(sig, n)| {
                let (detail, path) = self.viol_first.get(sig).cloned().unwrap_or_default();
                J::obj(vec![("signature", J::s(sig)), ("count", J::i(*n)), ("detail", J::s(detail)), ("replay", J::s(path))])
            })
            .collect();
        let doc = J::obj(vec![
            ("property", J::s(&self.prop)),
            ("shard", J::i(self.shard)),
            ("evaluations", J::i(self.evaluations)),
            ("distinct_local", J::i(self.sigs.len() as u64)),
            ("counters", J::Obj(self.counters.iter().map(|(k, v)| (k.clone(), J::i(*v))).collect())),
            ("samples", J::Arr(self.samples.clone())),
            ("violations", J::Arr(viols)),
            ("notes", J::Arr(self.notes.iter().map(J::s).collect())),
        ]);
        let path = self.out_dir.join(format!("shard-{}.json", self.shard));
        let mut f = std::fs::File::create(path).expect("write shard result");
        let _ = f.write_all(doc.to_string().as_bytes());
    }
}
