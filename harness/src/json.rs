//! Minimal JSON writer (no serde in the offline crate set).

#[derive(Clone, Debug)]
pub enum J {
    Null,
    Bool(bool),
    Int(i128),
    Num(f64),
    Str(String),
    Arr(Vec<J>),
    Obj(Vec<(String, J)>),
}

impl J {
    pub fn s(x: impl Into<String>) -> J {
        J::Str(x.into())
    }
    pub fn i(x: impl TryInto<i128>) -> J {
        J::Int(x.try_into().ok().unwrap_or(0))
    }
    pub fn obj(kv: Vec<(&str, J)>) -> J {
        J::Obj(kv.into_iter().map(|(k, v)| (k.to_string(), v)).collect())
    }
    pub fn write(&self, out: &mut String) {
        match self {
            J::Null => out.push_str("null"),
            J::Bool(b) => out.push_str(if *b { "true" } else { "false" }),
            J::Int(i) => out.push_str(&i.to_string()),
            J::Num(f) => {
                if f.is_finite() {
                    out.push_str(&format!("{}", f))
                } else {
                    out.push_str("null")
                }
            }
            J::Str(s) => esc(s, out),
            J::Arr(xs) => {
                out.push('[');
                for (i, x) in xs.iter().enumerate() {
                    if i > 0 {
                        out.push(',');
                    }
                    x.write(out);
                }
                out.push(']');
            }
            J::Obj(kv) => {
                out.push('{');
                for (i, (k, v)) in kv.iter().enumerate() {
                    if i > 0 {
                        out.push(',');
                    }
                    esc(k, out);
                    out.push(':');
                    v.write(out);
                }
                out.push('}');
            }
        }
    }
    pub fn to_string(&self) -> String {
        let mut s = String::new();
        self.write(&mut s);
        s
    }
}

fn esc(s: &str, out: &mut String) {
    out.push('"');
    for c in s.chars() {
        match c {
            '"' => out.push_str("\\\""),
            '\\' => out.push_str("\\\\"),
            '\n' => out.push_str("\\n"),
            '\r' => out.push_str("\\r"),
            '\t' => out.push_str("\\t"),
            c if (c as u32) < 0x20 => out.push_str(&format!("\\u{:04x}", c as u32)),
            c => out.push(c),
        }
    }
    out.push('"');
}
