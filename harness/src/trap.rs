//! S4 — panic trap: `catch_unwind` plus a process-wide hook that records where and why.

use std::cell::RefCell;
use std::panic::{catch_unwind, AssertUnwindSafe};
use std::sync::Once;

#[derive(Clone, Debug)]
pub struct PanicInfo {
    pub file: String,
    pub line: u32,
    pub message: String,
}

impl PanicInfo {
    /// signature without line numbers: source file + message class
    pub fn signature(&self) -> String {
        // repo files as src/..., dependency files as <crate-version>/src/... (no registry hash, no line)
        let file = if let Some(i) = self.file.find("/registry/src/") {
            let rest = &self.file[i + "/registry/src/".len()..];
            rest.splitn(2, '/').nth(1).unwrap_or(rest).to_string()
        } else if let Some(i) = self.file.find("/repo/") {
            self.file[i + "/repo/".len()..].to_string()
        } else {
            self.file.clone()
        };
        let mut msg: String = self.message.chars().map(|c| if c.is_ascii_digit() { '#' } else { c }).collect();
        if msg.len() > 60 {
            msg = msg.chars().take(60).collect();
        }
        format!("{}:{}", file, msg)
    }
}

thread_local! {
    static LAST: RefCell<Option<PanicInfo>> = const { RefCell::new(None) };
    static QUIET: RefCell<bool> = const { RefCell::new(false) };
}

static INSTALL: Once = Once::new();

pub fn install() {
    INSTALL.call_once(|| {
        let prev = std::panic::take_hook();
        std::panic::set_hook(Box::new(move |info| {
            let (file, line) = info.location().map(|l| (l.file().to_string(), l.line())).unwrap_or(("?".into(), 0));
            let message = if let Some(s) = info.payload().downcast_ref::<&str>() {
                s.to_string()
            } else if let Some(s) = info.payload().downcast_ref::<String>() {
                s.clone()
            } else {
                "<non-string panic payload>".to_string()
            };
            LAST.with(|l| *l.borrow_mut() = Some(PanicInfo { file, line, message }));
            let quiet = QUIET.with(|q| *q.borrow());
            if !quiet {
                prev(info);
            }
        }));
    });
}

/// Run `f`, returning Err(PanicInfo) if it panicked.
pub fn guard<R>(f: impl FnOnce() -> R) -> Result<R, PanicInfo> {
    install();
    QUIET.with(|q| *q.borrow_mut() = true);
    LAST.with(|l| *l.borrow_mut() = None);
    let r = catch_unwind(AssertUnwindSafe(f));
    QUIET.with(|q| *q.borrow_mut() = false);
    match r {
        Ok(v) => Ok(v),
        Err(_) => Err(LAST.with(|l| l.borrow_mut().take()).unwrap_or(PanicInfo { file: "?".into(), line: 0, message: "?".into() })),
    }
}
