use bc_components::{Signature, SignatureScheme, Signer, SigningOptions, Verifier};
fn main() {
    for (name, scheme) in [("P256", SignatureScheme::SshEcdsaP256), ("P384", SignatureScheme::SshEcdsaP384), ("Ed25519", SignatureScheme::SshEd25519), ("Dsa", SignatureScheme::SshDsa)] {
        let (sk, pk) = scheme.keypair();
        let (mut bad_verify, mut bad_rt, n) = (0, 0, 3000);
        for i in 0..n {
            let msg = format!("message {}", i);
            let opts = SigningOptions::Ssh { namespace: "t".into(), hash_alg: ssh_key::HashAlg::Sha512 };
            let sig = sk.sign_with_options(&msg.as_bytes() as &dyn AsRef<[u8]>, Some(opts)).unwrap();
            if !pk.verify(&sig, &msg.as_bytes()) { bad_verify += 1; }
            let cbor: dcbor::CBOR = sig.clone().into();
            if Signature::try_from(cbor).is_err() { bad_rt += 1; }
        }
        println!("{} n={} verify_fail={} cbor_roundtrip_fail={}", name, n, bad_verify, bad_rt);
    }
}
