use bc_envelope::prelude::*;
fn main() {
    let e = Envelope::try_from_cbor_data(hex::decode("d8c883d8c9714d4b353439392e312e656339333262383182a106d8c9d99d7540a10fd8c9d99c524c467c769ffc8fa1719edb176082a108d8c9fb3ddb7cdfd9d7bdbba1d8c9714d4b353439392e322e6439383737333861d8c9714d4b353439392e332e3462383966653938").unwrap()).unwrap();
    println!("{}", e.format_flat());
    let r = std::panic::catch_unwind(|| Envelope::sskr_join(&[&e]).is_ok());
    println!("join: {:?}", r.is_ok());
    // minimal
    let m = Envelope::new("x").add_assertion(known_values::SSKR_SHARE, dcbor::CBOR::to_tagged_value(40309u64, dcbor::CBOR::to_byte_string([])));
    let r = std::panic::catch_unwind(|| Envelope::sskr_join(&[&m]).is_ok());
    println!("minimal join panics: {:?}", r.is_err());
}
