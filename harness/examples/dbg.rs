use bc_envelope::prelude::*;
fn main() {
    let e = Envelope::new("Alice").add_assertion("knows", "Bob");
    let x = e.compress_subject().unwrap();
    println!("x = {}", x.format_flat());
    let cx = x.compress().unwrap();
    println!("cx = {}", cx.format_flat());
    let u = cx.uncompress().unwrap();
    println!("u = {}", u.format_flat());
    println!("identical {} ; bytes eq {}", u.is_identical_to(&x), u.tagged_cbor().to_cbor_data()==x.tagged_cbor().to_cbor_data());
    println!("{}\n{}", hex::encode(u.tagged_cbor().to_cbor_data()), hex::encode(x.tagged_cbor().to_cbor_data()));
}
