use bc_envelope::prelude::*;
fn main() {
    for v in [4294967296.0f32, 2147483648.0f32, 65536.0f32, 9.223372036854776e18f32, 1.8446742974197924e19f32, -4294967296.0f32, -1.8446744073709552e19f32, 3.0e10f32] {
        let e = Envelope::new(v);
        let e64 = Envelope::new(v as f64);
        println!("{:e}: f32 -> {}   f64 -> {}  same digest {}", v, hex::encode(e.to_cbor_data()), hex::encode(e64.to_cbor_data()), e.digest() == e64.digest());
        let back = Envelope::try_from_cbor_data(e.to_cbor_data());
        println!("     decode own encoding: {:?}  extract u64: {:?}  extract f64: {:?}", back.is_ok(), e.extract_subject::<u64>().ok(), e.extract_subject::<f64>().ok());
    }
}
